#!/usr/bin/env python3
"""Translator for property C16: derive coq/Gen/NullGuardTable.v (and build/c16/table.json, the
same table for the probe generator) from the seventeen anchored files of the source tree.

For every function DEFINED in the fifteen anchored .c files - exported ones and `static` ones
installed in a class table - the table holds: name, return-type class, parameters with
pointer-ness, the class-table slots the function is installed in, and the function's PRELUDE:
the declarations (with initialisers) and statements from the opening brace up to the first
statement that is neither a guard nor a declaration, as a list over

    Deref p | Use p | Call_alloc | Guard kind [p..] rv | CompNull s o | Delegate f args | Body

The text is read after `gcc -E -fdirectives-only` (conditional compilation resolved for the
configured build, macros NOT expanded, so the guard macros are still visible by name).  The
meaning of the guard macros themselves is translated from their ACTIVE definitions
(`gcc -E -dM`) into `guard_sem` records; pointer-ness of parameter types is asked of the compiler
(`__builtin_classify_type`).  Nothing is dropped silently: a function whose header or prelude
cannot be read is listed as `Unparsed` (with the reason) and counted; a macro definition or a
class-table initialiser that no longer has the expected shape goes to `table_errors`, and
theorem C16_source_shape (`table_errors = []`) then no longer compiles.  The script exits 0 in
those cases so that only C16 breaks (lib/vlib.py runs every tools/gen_*.py before every check);
exit 3 only if the tree cannot be read at all.  Output files are rewritten only on change.

usage: gen_c16.py <repo> [--force] [--dump]"""
import json, os, re, subprocess, sys, tempfile

HERE = os.path.dirname(os.path.abspath(__file__))
VERIF = os.path.dirname(HERE)
C_FILES = ['obj.c', 'str.c', 'ustr.c', 'mbuff.c', 'objpair.c', 'tok.c', 'url.c', 'regexp.c', 'socket.c',
           'array.c', 'linked_list.c', 'dlinked_list.c', 'strings.c', 'conf.c', 'msgs.c']
GUARD_MACROS = ('ASSERT_RVAL', 'REQUIRE_RVAL', 'ASSERT', 'REQUIRE', 'SPIF_OBJ_COMP_CHECK_NULL')
KEYWORDS = {'return', 'if', 'else', 'for', 'while', 'do', 'switch', 'case', 'goto', 'break', 'continue', 'sizeof', 'default'}

errors = []


def err(msg):
    sys.stderr.write('gen_c16: %s\n' % msg)
    errors.append(msg)


def run(cmd, stdin=None):
    p = subprocess.run(cmd, input=stdin, stdout=subprocess.PIPE, stderr=subprocess.PIPE)
    return p.returncode, p.stdout.decode(errors='replace'), p.stderr.decode(errors='replace')


def cpp_flags(repo):
    return ['-DHAVE_CONFIG_H', '-I' + repo, '-I' + os.path.join(repo, 'include'), '-I' + os.path.join(repo, 'include', 'libast'),
            '-I' + os.path.join(repo, 'src')]


# ---------------------------------------------------------------------------------------------
# lexical helpers
# ---------------------------------------------------------------------------------------------
def strip_comments_and_strings(text):
    """remove comments; replace the CONTENT of string/char literals by nothing (keeps the quotes) so that
    brackets and commas inside literals cannot confuse the bracket matching"""
    out = []
    i, n = 0, len(text)
    while i < n:
        c = text[i]
        if text.startswith('/*', i):
            j = text.find('*/', i + 2)
            j = n if j < 0 else j + 2
            out.append(' ' + '\n' * text.count('\n', i, j))
            i = j
        elif text.startswith('//', i):
            j = text.find('\n', i)
            i = n if j < 0 else j
        elif c == '"' or c == "'":
            j = i + 1
            while j < n and text[j] != c:
                j += 2 if text[j] == '\\' else 1
            out.append(c + c)
            i = j + 1
        else:
            out.append(c)
            i += 1
    return ''.join(out)


def match_close(text, i):
    """text[i] is an opening bracket; index of its partner, or -1"""
    pairs = {'(': ')', '[': ']', '{': '}'}
    stack = []
    for j in range(i, len(text)):
        c = text[j]
        if c in pairs:
            stack.append(pairs[c])
        elif c in ')]}':
            if not stack or stack.pop() != c:
                return -1
            if not stack:
                return j
    return -1


def split_top(text, sep):
    """split at separator characters that are outside every bracket"""
    parts, depth, cur = [], 0, []
    for c in text:
        if c in '([{':
            depth += 1
        elif c in ')]}':
            depth -= 1
        if c == sep and depth == 0:
            parts.append(''.join(cur))
            cur = []
        else:
            cur.append(c)
    parts.append(''.join(cur))
    return parts


def split_top_str(text, sep):
    """split at a multi-character operator (e.g. &&) outside brackets"""
    parts, depth, cur, i = [], 0, [], 0
    while i < len(text):
        c = text[i]
        if c in '([{':
            depth += 1
        elif c in ')]}':
            depth -= 1
        if depth == 0 and text.startswith(sep, i):
            parts.append(''.join(cur))
            cur = []
            i += len(sep)
            continue
        cur.append(c)
        i += 1
    parts.append(''.join(cur))
    return parts


def strip_parens(e):
    e = e.strip()
    while e.startswith('(') and match_close(e, 0) == len(e) - 1:
        e = e[1:-1].strip()
    return e


def squash(s):
    return re.sub(r'\s+', ' ', s).strip()


# ---------------------------------------------------------------------------------------------
# reading one source file
# ---------------------------------------------------------------------------------------------
def preprocess(repo, cfile):
    path = os.path.join(repo, 'src', cfile)
    rc, out, e = run(['gcc', '-E', '-fdirectives-only'] + cpp_flags(repo) + [path])
    if rc != 0:
        return None, e
    keep, on, lineno = [], False, 0
    for line in out.split('\n'):
        m = re.match(r'# (\d+) "([^"]*)"', line)
        if m:
            on = (m.group(2) == path)
            lineno = int(m.group(1))
            if on:
                keep.append((lineno, None))     # resynchronise
            continue
        if on:
            keep.append((None, line))
    # rebuild text with original line numbers kept in a side table
    lines, nums, cur = [], [], 0
    for ln, txt in keep:
        if txt is None:
            cur = ln
            continue
        if re.match(r'\s*#\s*(define|undef|pragma)\b', txt):
            txt = ''
        lines.append(txt)
        nums.append(cur)
        cur += 1
    return (lines, nums), None


def expand_defining_macros(text, defs):
    """Top-level invocations of function-like macros whose definition contains a function body
    (SPIF_DEFINE_PROPERTY_FUNC and friends) are expanded textually (parameter substitution and ## pasting),
    so that the functions they define are read like any other."""
    if not defs:
        return text
    out, depth, i, n = [], 0, 0, len(text)
    line_start = True
    while i < n:
        c = text[i]
        if depth == 0 and line_start:
            m = re.match(r'([A-Z][A-Z0-9_]*)\s*\(', text[i:])
            if m and m.group(1) in defs and defs[m.group(1)][0] and '{' in defs[m.group(1)][1]:
                o = i + m.end() - 1
                cl = match_close(text, o)
                if cl > 0:
                    args = [a.strip() for a in split_top(text[o + 1:cl], ',')]
                    params = [a.strip() for a in defs[m.group(1)][0].strip('()').split(',')]
                    body = defs[m.group(1)][1]
                    if len(args) == len(params):
                        for pn, a in zip(params, args):
                            body = re.sub(r'\b%s\b' % re.escape(pn), a, body)
                        body = re.sub(r'\s*##\s*', '', body)
                        out.append(strip_comments_and_strings(body))
                        i = cl + 1
                        while i < n and text[i] in ' \t':
                            i += 1
                        if i < n and text[i] == ';':
                            i += 1
                        continue
        if c in '([{':
            depth += 1
        elif c in ')]}':
            depth -= 1
        line_start = (c == '\n') or (line_start and c in ' \t')
        out.append(c)
        i += 1
    return ''.join(out)


def top_level_items(text):
    """yield (header_text, header_start, body_start, body_end) for every `{...}` at depth 0"""
    i, n, start = 0, len(text), 0
    while i < n:
        c = text[i]
        if c == ';':
            start = i + 1
        elif c == '{':
            j = match_close(text, i)
            if j < 0:
                return
            yield text[start:i], start, i, j
            i = j
            start = j + 1
        i += 1


HDR = re.compile(r'^(?P<ret>.*?[\s\*])(?P<name>[A-Za-z_]\w*)\s*\((?P<params>.*)\)\s*$', re.S)


def parse_param(p):
    """-> (type text, name) ; name None for unnamed ; ('...', None) for varargs"""
    p = squash(p)
    if p == '...':
        return ('...', None)
    if p == 'void':
        return None
    m = re.match(r'^(.*?)(\(\s*\*\s*(\w+)\s*\))\s*\(.*\)$', p)     # function pointer parameter
    if m:
        return ('fnptr', m.group(3))
    arr = ''
    m = re.match(r'^(.*?)\s*((?:\[[^\]]*\])+)$', p)
    if m:
        p, arr = m.group(1), '*' * m.group(2).count('[')
    m = re.match(r'^(.*?[\s\*])(\w+)$', p)
    if not m:
        return (p + arr, None)
    ty, name = m.group(1).strip(), m.group(2)
    if name in ('int', 'long', 'char', 'short', 'unsigned', 'double', 'float') or re.match(r'^(const|unsigned|struct|signed)$', ty):
        return (p + arr, None)
    return (squash(ty + arr), name)


# ---------------------------------------------------------------------------------------------
# statements of a body
# ---------------------------------------------------------------------------------------------
def statements(body):
    """top-level statements of a function body (text between the braces): list of (kind, text) with kind in
    'simple' (ends in ;) or 'compound' (if/for/while/switch/do/block ...)"""
    out, i, n = [], 0, len(body)
    while i < n:
        while i < n and body[i] in ' \t\n\r':
            i += 1
        if i >= n:
            break
        m = re.match(r'(if|for|while|switch|do|else)\b', body[i:])
        if body[i] == '{' or m:
            # consume the whole compound statement: header parens, then a block or a simple statement, then else-chains
            j = i
            while True:
                mm = re.match(r'\s*(if|for|while|switch|else\s+if|else|do)\b', body[j:])
                if mm:
                    j += mm.end()
                    k = j
                    while k < n and body[k] in ' \t\n\r':
                        k += 1
                    if mm.group(1) not in ('else', 'do') and k < n and body[k] == '(':
                        j = match_close(body, k) + 1
                k = j
                while k < n and body[k] in ' \t\n\r':
                    k += 1
                if k < n and body[k] == '{':
                    j = match_close(body, k) + 1
                elif re.match(r'(if|for|while|switch|do)\b', body[k:]):
                    j = k
                    continue
                else:
                    e = k
                    depth = 0
                    while e < n and not (body[e] == ';' and depth == 0):
                        depth += body[e] in '([{'
                        depth -= body[e] in ')]}'
                        e += 1
                    j = e + 1
                if re.match(r'\s*else\b', body[j:]):
                    continue
                if re.match(r'\s*while\s*\(', body[j:]) and re.match(r'do\b', body[i:]):
                    k = body.index('(', j)
                    j = match_close(body, k) + 1
                    k = j
                    while k < n and body[k] in ' \t\n\r':
                        k += 1
                    if k < n and body[k] == ';':
                        j = k + 1
                break
            out.append(('compound', body[i:j]))
            i = j
            continue
        e, depth = i, 0
        while e < n and not (body[e] == ';' and depth == 0):
            depth += body[e] in '([{'
            depth -= body[e] in ')]}'
            e += 1
        out.append(('simple', body[i:e].strip()))
        i = e + 1
    return out


DECL = re.compile(r'^(?:(?:const|unsigned|signed|struct|static|register|volatile|long|short)\s+)*[A-Za-z_]\w*(?:\s*\*+\s*|\s+)(?:\*\s*)*'
                  r'(?P<first>[A-Za-z_]\w*)\s*(?:\[[^\]]*\]\s*)*(?==|,|$)', re.S)
ALLOC_CALL = re.compile(r'\b(MALLOC|CALLOC|REALLOC|STRDUP|SPIF_ALLOC|malloc|calloc|realloc|strdup|strndup|fopen|fdopen|'
                        r'spif_\w+_new(?:_\w+)?|spif_\w+_dup|SPIF_\w+_NEW|SPIF_\w+_DUP|\w*_new)\s*\(')
# identity casts and null tests: mentioning a parameter inside these neither dereferences it nor hands it on
CAST_MACRO = re.compile(r'^(SPIF_CAST(_C|_PTR)?|SPIF_[A-Z_]*)$')


def is_decl(stmt):
    if re.match(r'^(return|goto|break|continue|case|default)\b', stmt):
        return None
    m = DECL.match(stmt)
    if not m:
        return None
    head = stmt[:m.start('first')]
    if '(' in head or '->' in head or '.' in head:
        return None
    return m


def calls_in(expr):
    """all calls NAME(args) in expr, outermost first: list of (name, [arg texts], start)"""
    out = []
    for m in re.finditer(r'\b([A-Za-z_]\w*)\s*\(', expr):
        name = m.group(1)
        if name in KEYWORDS:
            continue
        o = m.end() - 1
        c = match_close(expr, o)
        if c < 0:
            continue
        inner = expr[o + 1:c]
        args = [a.strip() for a in split_top(inner, ',')] if inner.strip() else []
        out.append((name, args, m.start()))
    return out


class FuncCtx:
    def __init__(self, ptr_params, known_funcs):
        self.ptr = ptr_params          # names of pointer parameters
        self.known = known_funcs       # name -> list of parameter names (functions of the table)


def bare_param(expr, ctx):
    """expr is parameter p, possibly wrapped in casts / identity macros: return p, else None"""
    e = strip_parens(expr)
    while True:
        m = re.match(r'^\(\s*[A-Za-z_][\w\s]*\**\s*\)\s*(.+)$', e, re.S)          # (type) x
        if m and match_close(e, 0) == e.index(')'):
            e = strip_parens(m.group(1))
            continue
        m = re.match(r'^(SPIF_CAST(?:_C|_PTR)?\s*\([^()]*\))\s*(.+)$', e, re.S)    # SPIF_CAST(t) x
        if m:
            e = strip_parens(m.group(2))
            continue
        m = re.match(r'^(SPIF_[A-Z_0-9]+)\s*\((.*)\)$', e, re.S)                    # SPIF_STR(x), SPIF_OBJ(x), SPIF_LIST(x)
        if m and match_close(e, e.index('(')) == len(e) - 1 and not m.group(1).endswith('ISNULL') and ',' not in m.group(2):
            e = strip_parens(m.group(2))
            continue
        break
    return e if e in ctx.ptr else None


def null_test(conj, ctx):
    """conjunct is a not-NULL test of a pointer parameter: return its name"""
    c = strip_parens(conj)
    m = re.match(r'^!\s*(SPIF_\w*ISNULL)\s*\((.*)\)$', c, re.S)
    if m:
        return bare_param(m.group(2), ctx)
    m = re.match(r'^(.+?)\s*!=\s*(.+)$', c, re.S)
    if m:
        l, r = m.group(1), m.group(2)
        rn = strip_parens(re.sub(r'\(\s*[\w\s]+\**\s*\)', '', r))
        if rn in ('NULL', '0'):
            return bare_param(l, ctx)
    return bare_param(c, ctx)        # REQUIRE_RVAL(ptr, v)


def expr_items(expr, ctx, skip_null_tests=True):
    """Deref / Use / Call_alloc / Delegate items for the evaluation of an expression, left to right (approximately:
    items are ordered by text position)."""
    items = []
    e = expr
    found = []
    for p in ctx.ptr:
        for m in re.finditer(r'(?<![\w>.])%s\b' % re.escape(p), e):
            s, t = m.start(), m.end()
            rest = e[t:].lstrip()
            before = e[:s].rstrip()
            if rest.startswith('->') or rest.startswith('['):
                found.append((s, ('Deref', p)))
            elif before.endswith('*') and not re.search(r'[\w\)\]]\s*\*$', before):
                found.append((s, ('Deref', p)))
    for (name, args, pos) in calls_in(e):
        if ALLOC_CALL.match(name + '('):
            found.append((pos, ('Call_alloc',)))
        for k, a in enumerate(args):
            bp = bare_param(a, ctx)
            if bp is None:
                continue
            if name.endswith('ISNULL') or CAST_MACRO.match(name) and name not in MACRO_DEREF:
                continue
            if name in MACRO_DEREF:
                found.append((pos, ('Deref', bp)))
            elif name in ctx.known:
                found.append((pos, ('Pass', name, k, bp)))
            elif name in SAFE_WITH_NULL:
                continue
            else:
                found.append((pos, ('Use', bp, name)))
    found.sort(key=lambda x: x[0])
    for _, it in found:
        if it not in items or it[0] == 'Call_alloc':
            items.append(it)
    return items


LOCAL_OBJ_TYPES = set()
# accessor macros of the headers that dereference their argument without a NULL test (filled from the headers)
MACRO_DEREF = set()
# library / libc calls that accept NULL without dereferencing
SAFE_WITH_NULL = {'free', 'FREE', 'USE_VAR', 'UNUSED', 'sizeof', 'SPIF_PTR_ISNULL', 'va_start', 'va_end', 'NONULL'}


def classify_rv(rv):
    r = strip_parens(rv)
    r0 = squash(r)
    rn = strip_parens(re.sub(r'^\(\s*[\w\s]+\**\s*\)\s*', '', r0))           # drop one leading cast
    rn = strip_parens(rn)
    if re.match(r'^SPIF_NULL_TYPE(_C|_PTR)?\s*\(', rn) or rn == 'NULL':
        return 'RvNull'
    if rn == 'FALSE':
        return 'RvFalse'
    if rn == 'TRUE':
        return 'RvTrue'
    if rn in ('-1', '(-1)'):
        return 'RvNeg1'
    if rn == '0':
        return 'RvZero'
    if rn == 'NAN':
        return 'RvNaN'
    if rn in ('SPIF_CMP_LESS', 'SPIF_CMP_EQUAL', 'SPIF_CMP_GREATER'):
        return {'SPIF_CMP_LESS': 'RvCmpLess', 'SPIF_CMP_EQUAL': 'RvCmpEqual', 'SPIF_CMP_GREATER': 'RvCmpGreater'}[rn]
    if re.match(r'^SPIF_NULLSTR_TYPE(_C|_PTR)?\s*\(\s*\w+\s*\)$', rn):
        return 'RvNullStr'
    m = re.match(r'^([A-Za-z_]\w*)\s*\((.*)\)$', rn, re.S)
    if m and match_close(rn, rn.index('(')) == len(rn) - 1:
        return 'RvCall:' + m.group(1)
    return 'RvOther'


def guard_items(macro, args, ctx):
    """items for one guard-macro statement"""
    items = []
    if macro == 'SPIF_OBJ_COMP_CHECK_NULL':
        if len(args) != 2:
            return None
        a, b = bare_param(args[0], ctx), bare_param(args[1], ctx)
        if a is None or b is None:
            # NULL ordering of two members: dereferences the objects, guards none of the parameters
            return expr_items(args[0], ctx) + expr_items(args[1], ctx) + [('Guard', 'GRequire', [], 'RvOther', 'SPIF_CMP_*')]
        return [('CompNull', a, b)]
    if macro in ('ASSERT_RVAL', 'REQUIRE_RVAL'):
        if len(args) != 2:
            return None
        cond, rv = args
        rvc = classify_rv(rv)
    else:
        if len(args) != 1:
            return None
        cond, rv, rvc = args[0], '', 'RvVoid'
    kind = {'ASSERT_RVAL': 'GAssert', 'REQUIRE_RVAL': 'GRequire', 'ASSERT': 'GAssertV', 'REQUIRE': 'GRequireV'}[macro]
    tested = []
    for conj in split_top_str(strip_parens(cond), '&&'):
        p = null_test(conj, ctx)
        if p is not None:
            tested.append(p)
            items.append(('Guard', kind, [p], rvc, squash(rv)))
        else:
            sub = expr_items(conj, ctx)
            items.extend(sub)
            items.append(('Guard', kind, [], rvc, squash(rv)))
    return items


def plain_if_guard(text, ctx):
    """`if (!p) return v;` / `if (p == NULL) { return v; }` -> Guard GIf [p] rv"""
    m = re.match(r'^if\s*\(', text)
    if not m:
        return None
    c = match_close(text, m.end() - 1)
    cond = text[m.end():c]
    rest = text[c + 1:].strip()
    if rest.startswith('{') and match_close(rest, 0) == len(rest) - 1:
        rest = rest[1:-1].strip()
    elif rest.startswith('{'):
        return None          # an else branch follows
    handled = False
    mr = re.match(r'^return\b\s*(.*?);$', rest, re.S)
    if not mr:
        # a block that deals with the NULL object and then returns (the `show` methods)
        inner = statements(rest)
        if not inner or inner[-1][0] != 'simple' or not re.match(r'^return\b', inner[-1][1]):
            return None
        if any(k != 'simple' for k, _ in inner):
            return None
        mr = re.match(r'^return\b\s*(.*)$', inner[-1][1], re.S)
        handled = True
    rv = mr.group(1)
    ps = []
    for disj in split_top_str(strip_parens(cond), '||'):
        d = strip_parens(disj)
        p = None
        mm = re.match(r'^!\s*(.+)$', d, re.S)
        if mm and not re.match(r'^!\s*=', d):
            inner = strip_parens(mm.group(1))
            p = bare_param(inner, ctx)
        if p is None:
            mm = re.match(r'^(SPIF_\w*ISNULL)\s*\((.*)\)$', d, re.S)
            if mm:
                p = bare_param(mm.group(2), ctx)
        if p is None:
            mm = re.match(r'^(.+?)\s*==\s*(.+)$', d, re.S)
            if mm:
                rn = strip_parens(re.sub(r'\(\s*[\w\s]+\**\s*\)', '', mm.group(2)))
                if rn in ('NULL', '0'):
                    p = bare_param(mm.group(1), ctx)
        if p is None:
            return None
        ps.append(p)
    rvc = 'RvHandled' if handled else (classify_rv(rv) if rv.strip() else 'RvVoid')
    if rvc.startswith('RvCall') or (not handled and expr_items(rv, ctx)):
        return None
    return [('Guard', 'GIf', [p], rvc, squash(rv)) for p in ps]


def prelude_of(body, ctx):
    """-> (items, reason_if_unparsed, all guard statements anywhere in the body)"""
    items = []
    for kind, text in statements(body):
        if kind == 'simple':
            if not text:
                continue
            m = re.match(r'^([A-Z_]+)\s*\((.*)\)$', text, re.S)
            if m and m.group(1) in GUARD_MACROS and match_close(text, text.index('(')) == len(text) - 1:
                args = [a.strip() for a in split_top(m.group(2), ',')]
                g = guard_items(m.group(1), args, ctx)
                if g is None:
                    return items, 'guard macro with unreadable arguments: %s' % squash(text)[:80]
                items.extend(g)
                continue
            dm = is_decl(text)
            if dm:
                # each declarator's initialiser
                decls = split_top(text, ',')
                for d in decls:
                    if '=' in d:
                        init = d.split('=', 1)[1]
                        items.extend(expr_items(init, ctx))
                continue
            # `return f(args);` as the first non-guard statement: a delegation
            mr = re.match(r'^return\b\s*(.*)$', text, re.S)
            if mr:
                e = strip_parens(mr.group(1))
                post = 'PId'
                mt = re.match(r'^(.*)\?\s*\(?\s*FALSE\s*\)?\s*:\s*\(?\s*TRUE\s*\)?$', e, re.S)
                if mt:
                    c0 = strip_parens(mt.group(1))
                    mi = re.match(r'^SPIF_\w*ISNULL\s*\(', c0)
                    if mi and match_close(c0, mi.end() - 1) == len(c0) - 1:
                        e, post = strip_parens(c0[mi.end():-1]), 'PNullToFalse'
                e = strip_parens(re.sub(r'^\(\s*[\w\s]+\**\s*\)\s*', '', e))
                cm = re.match(r'^([A-Za-z_]\w*)\s*\((.*)\)$', e, re.S)
                if cm and match_close(e, e.index('(')) == len(e) - 1 and cm.group(1) in ctx.known:
                    args = [a.strip() for a in split_top(cm.group(2), ',')] if cm.group(2).strip() else []
                    bare = [bare_param(a, ctx) for a in args]
                    for a, b in zip(args, bare):
                        if b is None:
                            items.extend(expr_items(a, ctx))
                    items.append(('Delegate', cm.group(1), bare, post))
                    return items, None
            items.append(('Body',))
            return items, None
        else:
            g = plain_if_guard(text, ctx)
            if g:
                items.extend(g)
                continue
            items.append(('Body',))
            return items, None
    items.append(('Body',))
    return items, None


def guards_anywhere(body, ctx):
    """pointer parameters named by a guard macro anywhere in the body (also nested): name -> (macro, rv class)"""
    out = {}
    for m in re.finditer(r'\b(%s)\s*\(' % '|'.join(GUARD_MACROS), body):
        o = m.end() - 1
        c = match_close(body, o)
        if c < 0:
            continue
        args = [a.strip() for a in split_top(body[o + 1:c], ',')]
        g = guard_items(m.group(1), args, ctx)
        for it in g or []:
            if it[0] == 'Guard':
                for p in it[2]:
                    out.setdefault(p, (it[1], it[3], it[4]))
            elif it[0] == 'CompNull':
                out.setdefault(it[1], ('GComp', 'RvCmpLess', 'SPIF_CMP_LESS'))
                out.setdefault(it[2], ('GComp', 'RvCmpGreater', 'SPIF_CMP_GREATER'))
    return out


# ---------------------------------------------------------------------------------------------
def pointer_types(repo, types):
    """ask the compiler which of the parameter type spellings are pointers: dict type -> True/False/None"""
    res = {}
    for t in types:
        if t in LOCAL_OBJ_TYPES or re.sub(r'^SPIF_TYPE\((\w+)\)$', r'spif_\1_t', t) in LOCAL_OBJ_TYPES:
            res[t] = True
    todo = [t for t in sorted(types) if t not in ('...', 'fnptr') and t not in res]
    src = ['#include <config.h>', '#include <libast.h>', '#include <stdio.h>', 'int main(void){']
    for k, t in enumerate(todo):
        src.append('{ %s x%d; printf("%d %%d\\n", __builtin_classify_type(x%d)); }' % (t, k, k, k))
    src.append('return 0;}')

    def attempt(lines):
        with tempfile.TemporaryDirectory() as d:
            cf = os.path.join(d, 't.c')
            with open(cf, 'w') as f:
                f.write('\n'.join(lines))
            rc, o, e = run(['gcc', '-w', '-o', os.path.join(d, 't')] + cpp_flags(repo) + [cf])
            if rc != 0:
                return None, e
            rc, o, e2 = run([os.path.join(d, 't')])
            return o, ''
    o, e = attempt(src)
    bad = set()
    guard = 0
    while o is None and guard < 40:
        guard += 1
        m = re.search(r't\.c:(\d+):', e)
        if not m:
            break
        ln = int(m.group(1)) - 1
        if ln < 4 or ln >= len(src) - 1 or src[ln] == '':
            break
        bad.add(todo[ln - 4])
        src[ln] = ''
        o, e = attempt(src)
    for line in (o or '').split('\n'):
        if line.strip():
            k, c = line.split()
            res[todo[int(k)]] = (int(c) == 5)
    for t in bad:
        res[t] = None
    res['fnptr'] = True
    res['...'] = False
    return res


def macro_semantics(repo):
    """translate the ACTIVE definitions of the guard macros into guard_sem records"""
    with tempfile.TemporaryDirectory() as d:
        cf = os.path.join(d, 'm.c')
        with open(cf, 'w') as f:
            f.write('#include <config.h>\n#include <libast.h>\n')
        rc, o, e = run(['gcc', '-E', '-dM'] + cpp_flags(repo) + [cf])
    if rc != 0:
        err('cannot preprocess libast.h: ' + e[:200])
        return {}, None
    defs = {}
    for line in o.split('\n'):
        m = re.match(r'#define (\w+)(\([^)]*\))?\s*(.*)$', line)
        if m:
            defs[m.group(1)] = (m.group(2) or '', m.group(3))
    sems = {}
    dbg = defs.get('DEBUG', ('', None))[1]

    def acts(block, with_val):
        """statement list -> list of gact"""
        out = []
        for s in [x.strip() for x in split_top(block, ';') if x.strip()]:
            if re.match(r'^libast_fatal_error\s*\(', s):
                out.append('AFatal')
            elif re.match(r'^libast_print_warning\s*\(', s):
                out.append('AWarn')
            elif re.match(r'^libast_dprintf\s*\(', s) or s == '__DEBUG()':
                out.append('ADprint')
            elif re.match(r'^return\s*\(\s*(val|v)\s*\)$', s) and with_val:
                out.append('AReturn')
            elif s == 'return' and not with_val:
                out.append('AReturn')
            else:
                return None
        return out
    for name, with_val in (('ASSERT_RVAL', True), ('REQUIRE_RVAL', True), ('ASSERT', False), ('REQUIRE', False)):
        if name not in defs:
            err('anchor not found: active definition of %s' % name)
            continue
        body = squash(defs[name][1])
        if body in ('NOP', '((void)0)', ''):
            sems[name] = dict(thr=0, hi=[], lo=[], after=[], off=True)
            continue
        m = re.match(r'^do \{ if \(!\(x\)\) \{ (.*) \} \} while \(0\)$', body)
        if not m:
            err('shape of %s not recognised: %s' % (name, body[:120]))
            continue
        inner = m.group(1).strip()
        mi = re.match(r'^if \(DEBUG_LEVEL >= (\d+)\) \{', inner)
        if not mi:
            a = acts(inner, with_val)
            if a is None:
                err('shape of %s not recognised (statements): %s' % (name, inner[:120]))
                continue
            sems[name] = dict(thr=0, hi=[], lo=[], after=a, off=False)
            continue
        o1 = inner.index('{')
        c1 = match_close(inner, o1)
        hi = inner[o1 + 1:c1]
        rest = inner[c1 + 1:].strip()
        lo = ''
        me = re.match(r'^else \{', rest)
        if me:
            o2 = rest.index('{')
            c2 = match_close(rest, o2)
            lo = rest[o2 + 1:c2]
            rest = rest[c2 + 1:].strip()
        A, B, C = acts(hi, with_val), acts(lo, with_val), acts(rest, with_val)
        if A is None or B is None or C is None:
            err('shape of %s not recognised (branches): %s' % (name, inner[:160]))
            continue
        sems[name] = dict(thr=int(mi.group(1)), hi=A, lo=B, after=C, off=False)
    comp = None
    if 'SPIF_OBJ_COMP_CHECK_NULL' in defs:
        body = squash(defs['SPIF_OBJ_COMP_CHECK_NULL'][1])
        m = re.match(r'^do \{ if \(SPIF_OBJ_ISNULL\(\(s\)\) && SPIF_OBJ_ISNULL\(\(o\)\)\) \{ return (SPIF_CMP_\w+); \} '
                     r'else if \(SPIF_OBJ_ISNULL\(\(s\)\)\) \{ return (SPIF_CMP_\w+); \} '
                     r'else if \(SPIF_OBJ_ISNULL\(\(o\)\)\) \{ return (SPIF_CMP_\w+); \} \} while \(0\)$', body)
        if m and defs['SPIF_OBJ_COMP_CHECK_NULL'][0].replace(' ', '') == '(s,o)':
            comp = [m.group(1), m.group(2), m.group(3)]
        else:
            err('shape of SPIF_OBJ_COMP_CHECK_NULL not recognised: %s' % body[:160])
    else:
        err('anchor not found: definition of SPIF_OBJ_COMP_CHECK_NULL')
    isnull = squash(defs.get('SPIF_OBJ_ISNULL', ('', ''))[1])
    if isnull != '(SPIF_OBJ(o) == (spif_obj_t) NULL)':
        err('shape of SPIF_OBJ_ISNULL not recognised: %s' % isnull)
    return dict(sems=sems, comp=comp, debug=dbg), defs


def deref_macros(defs):
    """function-like macros of the headers whose expansion dereferences a parameter without testing it for NULL first;
    mentioning a pointer parameter inside such a macro counts as Deref"""
    out = set()
    for name, (params, body) in defs.items():
        if not params or not name.startswith('SPIF_'):
            continue
        ps = [p.strip() for p in params.strip('()').split(',') if p.strip()]
        if not ps:
            continue
        p0 = ps[0]
        if re.search(r'ISNULL\s*\(\s*\(?\s*%s\b' % re.escape(p0), body):
            continue
        if re.search(r'\(\s*%s\s*\)\s*\)*\s*->|\b%s\s*->' % (re.escape(p0), re.escape(p0)), body) or \
           re.search(r'SPIF_OBJ_CLASS\s*\(\s*\(?\s*%s\b|SPIF_\w*CALL_METHOD\s*\(\s*\(?\s*%s\b' % (re.escape(p0), re.escape(p0)), body):
            out.add(name)
    # transitive closure over wrappers  #define A(x) B(x)
    changed = True
    while changed:
        changed = False
        for name, (params, body) in defs.items():
            if name in out or not params or not name.startswith('SPIF_'):
                continue
            ps = [p.strip() for p in params.strip('()').split(',') if p.strip()]
            if not ps:
                continue
            for (callee, args, _) in calls_in(body):
                if callee in out and args and re.search(r'\b%s\b' % re.escape(ps[0]), args[0]) and 'ISNULL' not in body:
                    out.add(name)
                    changed = True
                    break
    return out


# ---------------------------------------------------------------------------------------------
def ret_class(ret, is_ptr):
    r = squash(ret.replace('static', '').replace('const ', ''))
    if r == 'void':
        return 'TVoid'
    if r == 'spif_bool_t':
        return 'TBool'
    if r == 'spif_cmp_t':
        return 'TCmp'
    if r in ('double', 'float'):
        return 'TFloat'
    if is_ptr:
        return 'TPtr'
    return 'TInt'


def normalise_rv(rvc, rc):
    """the constant 0 is written FALSE, NULL, (type) NULL or 0 regardless of the return type; read it in the
    function's own return class (the probe validates the value that is actually returned)"""
    zero = ('RvNull', 'RvFalse', 'RvZero')
    if rvc in zero:
        return {'TPtr': 'RvNull', 'TBool': 'RvFalse', 'TInt': 'RvZero', 'TCmp': 'RvCmpEqual'}.get(rc, rvc)
    return rvc


def py_guard_class(byname, e, pname, depth=8):
    """mirror of GuardModel.guard_class (used only to compare sibling implementations of an interface slot)"""
    if depth == 0 or e.get('unparsed'):
        return None
    for it in e['prelude']:
        if it[0] == 'Guard' and pname in it[2]:
            return it[3]
        if it[0] == 'CompNull' and pname in (it[1], it[2]):
            return 'RvCmp'
        if it[0] == 'Delegate':
            if pname in it[2]:
                cal = byname.get(it[1])
                if cal is None:
                    return None
                k = it[2].index(pname)
                if k >= len(cal['params']) or not cal['params'][k]['name']:
                    return None
                return py_guard_class(byname, cal, cal['params'][k]['name'], depth - 1)
            return None
        if it[0] == 'Body':
            return None
    return None


def read_tree(repo):
    sem, defs = macro_semantics(repo)
    if defs:
        MACRO_DEREF.update(deref_macros(defs))
    funcs, tables, unparsed_hdr = [], [], []
    from concurrent.futures import ThreadPoolExecutor
    with ThreadPoolExecutor(max_workers=8) as ex:
        pps = list(ex.map(lambda cf: preprocess(repo, cf), C_FILES))
    for cf, (pp, e) in zip(C_FILES, pps):
        if pp is None:
            err('cannot preprocess src/%s: %s' % (cf, (e or '')[:200]))
            continue
        lines, nums = pp
        text0 = strip_comments_and_strings('\n'.join(lines))
        text = expand_defining_macros(text0, defs)
        for m in re.finditer(r'\bSPIF_DECL_OBJ\s*\(\s*(\w+)\s*\)', text0):
            LOCAL_OBJ_TYPES.add('spif_%s_t' % m.group(1))

        def lineno(pos):
            # expansions are single-line, so newline counting still maps to the original line
            k = text.count('\n', 0, pos)
            return nums[k] if k < len(nums) else 0
        # a prior `static` prototype gives the later definition internal linkage, whatever the definition says
        static_protos = set(re.findall(r'^\s*static\b[^;{}()=]*?\b(\w+)\s*\([^;{}]*\)\s*;', text, flags=re.M))
        for header, hs, bs, be in top_level_items(text):
            h = header.strip()
            if not h:
                continue
            if '=' in h:
                # initialiser: a class table?
                m = re.match(r'^(static\s+)?(.*?)\s+(\w+)\s*=$', squash(h))
                body = text[bs + 1:be]
                if m and re.search(r'\(\s*spif_func_t\s*\)', body):
                    flat = re.sub(r'[{}]', ' ', body)
                    entries = []
                    ok = True
                    for ent in [x.strip() for x in flat.split(',') if x.strip()]:
                        mm = re.match(r'^\(\s*spif_func_t\s*\)\s*(\w+)$', ent)
                        if mm:
                            entries.append(mm.group(1))
                        elif re.match(r'^SPIF_DECL_CLASSNAME\s*\(\s*\w+\s*\)$', ent):
                            entries.append(None)
                        else:
                            ok = False
                            err('src/%s:%d: class-table entry not recognised: %s' % (cf, lineno(bs), ent[:60]))
                    tables.append(dict(file=cf, var=m.group(3), type=m.group(2), entries=entries, line=lineno(hs + len(header) - len(header.lstrip())), public=[]))
                continue
            if re.match(r'^(typedef|struct|union|enum)\b', h) or re.match(r'^SPIF_DECL_OBJ', h):
                continue
            m = HDR.match(h)
            if not m:
                unparsed_hdr.append(dict(file=cf, line=lineno(bs), text=squash(h)[:100]))
                continue
            ret = squash(m.group('ret'))
            params = []
            raw = m.group('params').strip()
            bad = False
            if raw and raw != 'void':
                for p in split_top(raw, ','):
                    pp_ = parse_param(p)
                    if pp_ is None:
                        continue
                    params.append(pp_)
            funcs.append(dict(name=m.group('name'), file=cf, line=lineno(bs), static=bool(re.match(r'^static\b', ret)) or m.group('name') in static_protos,
                              ret=squash(re.sub(r'^static\s+', '', ret)), params=params, body=text[bs + 1:be]))
        # public variables pointing at the static tables:  T VAR = [(cast)] &table;
        for m in re.finditer(r'^\s*([^\n;{}=]*?)\s+(SPIF_\w*CLASS_VAR\s*\(\s*\w+\s*\))\s*=\s*(?:\([^)]*\)\s*)?&\s*(\w+)\s*;', text, flags=re.M):
            for t in tables:
                if t['file'] == cf and t['var'] == m.group(3):
                    t['public'].append((squash(m.group(1)), squash(m.group(2))))
    return sem, funcs, tables, unparsed_hdr


def build_table(repo):
    sem, funcs, tables, unparsed_hdr = read_tree(repo)
    types = set()
    for f in funcs:
        for (t, n) in f['params']:
            types.add(t)
        types.add(re.sub(r'^const\s+', '', f['ret']) if f['ret'] != 'void' else 'int')
    # types local to a .c file (SPIF_DECL_OBJ(x) => spif_x_t is an object pointer) are not visible through libast.h
    ptr = pointer_types(repo, types)
    for t, v in list(ptr.items()):
        if v is None:
            if '*' in t:
                ptr[t] = True
            elif re.match(r'^spif_\w+_t$', t):
                ptr[t] = True          # file-local object type (SPIF_DECL_OBJ in the .c file)
            else:
                err('cannot decide pointer-ness of parameter type %s' % t)
                ptr[t] = False
    slots = {}
    for t in tables:
        if not t['public']:
            err('src/%s: class table %s is not published through a *_CLASS_VAR' % (t['file'], t['var']))
        for k, ent in enumerate(t['entries']):
            if ent:
                slots.setdefault((t['file'], ent), []).append((t['var'], k))
    known = {f['name']: [n for (_, n) in f['params']] for f in funcs}
    entries, helpers = [], []
    for f in funcs:
        installed = slots.get((f['file'], f['name']), [])
        if f['static'] and not installed:
            helpers.append(f['name'])
        pnames = [n for (_, n) in f['params']]
        ptrs = [n for (t, n) in f['params'] if n and ptr.get(t)]
        ctx = FuncCtx(ptrs, known)
        e = dict(name=f['name'], file=f['file'], line=f['line'], static=f['static'], ret=f['ret'],
                 reach=('Helper' if (f['static'] and not installed) else ('Slot' if f['static'] else 'Exported')),
                 ret_class=ret_class(f['ret'], ptr.get(re.sub(r'^const\s+', '', f['ret']), '*' in f['ret'])),
                 params=[dict(type=t, name=n, ptr=bool(ptr.get(t))) for (t, n) in f['params']],
                 slots=[dict(table=tv, index=k) for (tv, k) in installed], unparsed=None)
        if any(n is None and t != '...' for (t, n) in f['params']):
            e['unparsed'] = 'unnamed parameter'
            e['prelude'], e['guarded'] = [], {}
        else:
            items, why = prelude_of(f['body'], ctx)
            e['prelude'] = [((it[0], it[1], it[2], normalise_rv(it[3], e['ret_class']), it[4]) if it[0] == 'Guard' else it) for it in items]
            e['unparsed'] = why
            e['guarded'] = {k: (v[0], normalise_rv(v[1], e['ret_class']), v[2]) for k, v in guards_anywhere(f['body'], ctx).items()}
        entries.append(e)
    # parameters the function tests for NULL in plain C somewhere (if (p), !p, p == NULL, p ? a : b, NONULL(p))
    # without a guard macro: the function claims to cope with NULL, so the probe calls it with NULL (no theorem:
    # the test lies beyond the prelude)
    byname = {e['name']: e for e in entries}
    for e, f in zip(entries, funcs):
        e['null_aware'] = []
        if e['unparsed'] or e['reach'] == 'Helper':
            continue
        for prm in e['params']:
            pn = prm['name']
            if not prm['ptr'] or not pn or pn in e['guarded'] or py_guard_class(byname, e, pn) is not None:
                continue
            b = f['body']
            q = re.escape(pn)
            tests = [r'\bif\s*\(\s*!?\s*%s\s*[)&|]' % q, r'[(&|]\s*!\s*%s\s*[)&|]' % q, r'\b%s\s*[!=]=\s*(\([^()]*\)\s*)?NULL\b' % q,
                     r'\bNONULL\s*\(\s*%s\s*\)' % q, r'[(=,]\s*\(?\s*%s\s*\)?\s*\?' % q, r'ISNULL\s*\(\s*%s\s*\)' % q,
                     r'&&\s*%s\s*[)&]' % q, r'\(\s*%s\s*&&' % q]
            first = None
            for t in tests:
                m = re.search(t, b)
                if m and (first is None or m.start() < first):
                    first = m.start()
            if first is not None:
                e['null_aware'].append(pn)
    # sibling implementations of one interface slot (same class-table type, same index) must guard the same
    # parameter positions: a position guarded in one implementation and not in another is a cell of the latter
    byname = {e['name']: e for e in entries}
    bytype = {}
    for t in tables:
        bytype.setdefault(t['type'], []).append(t)
    sibling = []
    for ty, ts in bytype.items():
        if len(ts) < 2:
            continue
        for k in range(max(len(t['entries']) for t in ts)):
            impls = [byname[t['entries'][k]] for t in ts if k < len(t['entries']) and t['entries'][k] in byname]
            impls = [e for i, e in enumerate(impls) if e['name'] not in [x['name'] for x in impls[:i]]]
            if len(impls) < 2:
                continue
            npar = min(len(e['params']) for e in impls)
            for j in range(npar):
                if not all(e['params'][j]['ptr'] and e['params'][j]['name'] for e in impls):
                    continue
                g = [(e, e['params'][j]['name'] in e['guarded'] or py_guard_class(byname, e, e['params'][j]['name']) is not None) for e in impls]
                if any(x for _, x in g) and not all(x for _, x in g):
                    for e, x in g:
                        if not x:
                            sibling.append(dict(function=e['name'], param=e['params'][j]['name'], index=j, slot=k, table_type=ty,
                                                guarded_in=[o['name'] for o, y in g if y]))
    return dict(sibling=sibling, sem=sem, entries=entries, tables=tables, helpers=helpers, unparsed_headers=unparsed_hdr, errors=list(errors))


# ---------------------------------------------------------------------------------------------
# output
# ---------------------------------------------------------------------------------------------
def coq_str(t):
    return '"' + t.replace('\\', '/').replace('"', "'") + '"'


def coq_rv(rvc):
    if rvc.startswith('RvCall:'):
        return '(RvCall %s)' % coq_str(rvc[7:])
    return rvc


def coq_item(it, pos):
    k = it[0]
    if k in ('Deref', 'Use'):
        return '%s %d' % (k, pos[it[1]])
    if k == 'Call_alloc' or k == 'Body':
        return k
    if k == 'Guard':
        return 'Guard %s [%s] %s' % (it[1], '; '.join(str(pos[p]) for p in it[2]), coq_rv(it[3]))
    if k == 'CompNull':
        return 'CompNull %d %d' % (pos[it[1]], pos[it[2]])
    if k == 'Delegate':
        return 'Delegate %s [%s] %s' % (coq_str(it[1]), '; '.join('None' if a is None else 'Some %d' % pos[a] for a in it[2]), it[3])
    if k == 'Pass':
        return 'Use %d' % pos[it[3]]
    raise ValueError(k)


def coq_sem(d):
    return '{| gs_thr := %d; gs_hi := [%s]; gs_lo := [%s]; gs_after := [%s] |}' % (
        d['thr'], '; '.join(d['hi']), '; '.join(d['lo']), '; '.join(d['after']))


def load_exempt():
    """cells excused for now: checks/c16_pending.json (defects whose fix is prepared by another work package and
    not merged yet) and C16 entries of known_findings.json that carry a `cells` list"""
    out = []
    for path, key in ((os.path.join(VERIF, 'checks', 'c16_pending.json'), 'pending'),
                      (os.path.join(VERIF, 'checks', 'c16_pending.json'), 'findings_proposed'),
                      (os.path.join(VERIF, 'known_findings.json'), 'findings')):
        try:
            with open(path) as f:
                j = json.load(f)
        except (OSError, ValueError):
            continue
        for ent in j.get(key, []):
            if key == 'findings' and (ent.get('property') != 'C16' or ent.get('kind', 'finding') != 'finding'):
                continue
            for c in ent.get('cells', []):
                out.append(dict(function=c[0], param=c[1], what=ent.get('what', ''), source=os.path.basename(path)))
    return out


def emit(T, out_v, out_json):
    entries = T['entries']
    sem = T['sem'] or {}
    sems = (sem.get('sems') or {})
    lines = ['(* GENERATED by tools/gen_c16.py from include/libast.h, include/libast/obj.h and fifteen src/*.c files of the',
             '   source tree (after gcc -E -fdirectives-only for the configured build) - do not edit *)',
             'From LV Require Import Guard.GuardModel.', 'Local Open Scope fn_scope.', '']
    lines.append('(* anchors that no longer match; theorem C16_source_shape states that this list is empty *)')
    lines.append('Definition table_errors : list fname := [%s].' % '; '.join(coq_str(x[:200]) for x in T['errors']))
    lines.append('')
    lines.append('(* compile-time DEBUG of the configured build: %s *)' % sem.get('debug'))
    dflt = dict(thr=0, hi=[], lo=[], after=[])
    comp = sem.get('comp') or ['SPIF_CMP_EQUAL', 'SPIF_CMP_EQUAL', 'SPIF_CMP_EQUAL']
    cm = {'SPIF_CMP_LESS': 'RvCmpLess', 'SPIF_CMP_EQUAL': 'RvCmpEqual', 'SPIF_CMP_GREATER': 'RvCmpGreater'}
    lines.append('Definition guard_sems : sems := {|')
    lines.append('  s_assert_rval := %s;' % coq_sem(sems.get('ASSERT_RVAL', dflt)))
    lines.append('  s_require_rval := %s;' % coq_sem(sems.get('REQUIRE_RVAL', dflt)))
    lines.append('  s_assert := %s;' % coq_sem(sems.get('ASSERT', dflt)))
    lines.append('  s_require := %s;' % coq_sem(sems.get('REQUIRE', dflt)))
    lines.append('  s_comp_both := %s; s_comp_first := %s; s_comp_second := %s |}.' % tuple(cm.get(x, 'RvOther') for x in comp))
    lines.append('')
    lines.append('Definition table : list entry := [')
    rows = []
    named = []
    for e in entries:
        pos = {p['name']: k for k, p in enumerate(e['params']) if p['name']}
        selfpos = [k for k, p in enumerate(e['params']) if p['name'] == 'self' and p['ptr']]
        try:
            items = '; '.join(coq_item(it, pos) for it in e['prelude'])
        except (KeyError, ValueError) as ex:
            e['unparsed'] = e['unparsed'] or ('item not expressible: %s' % ex)
            items = ''
        if e['unparsed']:
            items = ''
        rows.append('  (* %s:%d%s *)\n  {| e_name := %s; e_reach := %s; e_ret := %s; e_params := [%s]; e_self := %s; e_slots := %d; e_parsed := %s;\n'
                    '     e_prelude := [%s] |}' % (
                        e['file'], e['line'], (' UNPARSED: ' + e['unparsed'].replace('*)', '* )')) if e['unparsed'] else '',
                        coq_str(e['name']), e['reach'], e['ret_class'], '; '.join('true' if p['ptr'] else 'false' for p in e['params']),
                        ('Some %d' % selfpos[0]) if selfpos else 'None', len(e['slots']), 'false' if e['unparsed'] else 'true', items))
        if e['reach'] != 'Helper':
            for pn in e['guarded']:
                if pn in pos:
                    named.append((e['name'], pos[pn]))
            # comparison methods: SPIF_OBJ_COMP_CHECK_NULL documents the NULL ordering for both operands of every
            # `comp` slot, so an operand a sibling implementation guards is a cell here too.  (Other sibling
            # differences - a list that refuses NULL elements where another stores them - are probed only.)
            for sb in T['sibling']:
                if sb['function'] == e['name'] and e['ret_class'] == 'TCmp' and (e['name'], sb['index']) not in named:
                    named.append((e['name'], sb['index']))
    lines.append(';\n'.join(rows))
    lines.append('].')
    lines.append('')
    lines.append('(* every (function, pointer parameter) named by a guard macro anywhere in the function, and every parameter that a')
    lines.append('   sibling implementation of the same interface slot guards *)')
    lines.append('Definition named_cells : list cell := [')
    lines.append(';\n'.join('  (%s, %d)' % (coq_str(f), k) for (f, k) in named))
    lines.append('].')
    lines.append('')
    ex = load_exempt()
    known = {e['name']: e for e in entries}
    exc = []
    for x in ex:
        e = known.get(x['function'])
        if e is None:
            continue
        pos = {p['name']: k for k, p in enumerate(e['params']) if p['name']}
        if x['param'] in pos:
            exc.append((x['function'], pos[x['param']], x['source']))
    lines.append('(* cells excused for now (checks/c16_pending.json: fixes prepared by other work packages, not merged yet;')
    lines.append('   known_findings.json: recorded findings) - the theorems say so in their statements *)')
    lines.append('Definition exempt : list cell := [%s].' % '; '.join('(%s, %d)' % (coq_str(f), k) for (f, k, _) in exc))
    lines.append('')
    import hashlib
    digest = hashlib.sha1('\n'.join(lines).encode()).hexdigest()[:16]
    lines.append('(* identifies this table; build/c16/table.json carries the same value *)')
    lines.append('Definition table_digest : fname := "%s".' % digest)
    lines.append('Definition table_size : nat := %d.' % len(entries))
    lines.append('Definition named_cells_size : nat := %d.' % len(named))
    text = '\n'.join(lines) + '\n'
    old = None
    try:
        with open(out_v) as f:
            old = f.read()
    except OSError:
        pass
    if old != text:
        os.makedirs(os.path.dirname(out_v), exist_ok=True)
        with open(out_v, 'w') as f:
            f.write(text)
    # the same table for the probe generator and the check
    J = dict(repo=T.get('repo'), digest=digest, sem=T['sem'], sibling=T['sibling'], local_types=sorted(LOCAL_OBJ_TYPES), errors=T['errors'], helpers=T['helpers'], unparsed_headers=T['unparsed_headers'],
             tables=[dict(file=t['file'], var=t['var'], type=t['type'], public=t['public'], entries=t['entries']) for t in T['tables']],
             exempt=[dict(function=f, param=k, source=src) for (f, k, src) in exc],
             entries=[dict(index=i, name=e['name'], file=e['file'], line=e['line'], static=e['static'], reach=e['reach'], ret=e['ret'],
                           ret_class=e['ret_class'], params=e['params'], slots=e['slots'], unparsed=e['unparsed'], null_aware=e.get('null_aware', []),
                           prelude=[list(it) for it in e['prelude']], guarded={k: list(v) for k, v in e['guarded'].items()})
                      for i, e in enumerate(entries)])
    jt = json.dumps(J, indent=1, sort_keys=True)
    old = None
    try:
        with open(out_json) as f:
            old = f.read()
    except OSError:
        pass
    if old != jt:
        os.makedirs(os.path.dirname(out_json), exist_ok=True)
        with open(out_json, 'w') as f:
            f.write(jt)


if __name__ == '__main__':
    repo = sys.argv[1] if len(sys.argv) > 1 and not sys.argv[1].startswith('--') else os.environ.get('VERIF_REPO', '/repo')
    if not os.path.isdir(os.path.join(repo, 'src')):
        sys.stderr.write('gen_c16: no source tree at %s\n' % repo)
        sys.exit(3)
    out_v = os.path.join(VERIF, 'coq', 'Gen', 'NullGuardTable.v')
    # lib/vlib.py runs every tools/gen_*.py before EVERY property's check, with that run's source tree.  The table
    # differs between trees (it is the model), so only a C16 run (checks/c16.py sets VERIF_C16_GEN) rewrites it;
    # runs on behalf of other properties leave an existing table alone.
    if os.environ.get('VERIF_C16_GEN') != '1' and '--force' not in sys.argv and '--dump' not in sys.argv and os.path.exists(out_v):
        sys.exit(0)
    T = build_table(repo)
    T['repo'] = repo
    emit(T, os.path.join(VERIF, 'coq', 'Gen', 'NullGuardTable.v'), os.path.join(VERIF, 'build', 'c16', 'table.json'))
    if '--dump' in sys.argv:
        for e in T['entries']:
            print('%s:%d %s%s %s(%s) slots=%s' % (e['file'], e['line'], 'static ' if e['static'] else '', e['ret_class'], e['name'],
                                                   ', '.join(('*' if p['ptr'] else '') + str(p['name']) for p in e['params']),
                                                   ['%s[%d]' % (s['table'], s['index']) for s in e['slots']]))
            print('    guarded=%s %s' % ({k: v[:2] for k, v in e['guarded'].items()}, ('UNPARSED: ' + e['unparsed']) if e['unparsed'] else ''))
            for it in e['prelude']:
                print('    ', it)
        print('helpers', T['helpers'])
        print('unparsed headers', T['unparsed_headers'])
        print('errors', T['errors'])
        print('sem', T['sem'])
        print('deref macros', sorted(MACRO_DEREF))
