#!/usr/bin/env python3
"""seedrun.py <Cnn> <patch.diff> [quick|thorough]
Apply a seeded change to a scratch copy of /repo, confirm it builds and the suite still passes the
baseline, run the property's check against the copy and report whether it fires.  The copy is removed
afterwards and evidence/<Cnn>.json is restored (evidence must come from /repo itself)."""
import os, shutil, subprocess, sys, tempfile
here = os.path.dirname(os.path.dirname(os.path.abspath(__file__)))
pid, patch = sys.argv[1], os.path.abspath(sys.argv[2])
tier = sys.argv[3] if len(sys.argv) > 3 else 'quick'
d = tempfile.mkdtemp(prefix='seedrun-%s-' % pid, dir='/tmp')
os.rmdir(d)
subprocess.check_call(['cp', '-a', '/repo', d])
try:
    r = subprocess.run(['git', 'apply', patch], cwd=d)
    if r.returncode != 0:
        print('RESULT apply-failed'); sys.exit(2)
    b = subprocess.run(['python3', os.path.join(here, 'tools', 'baseline_check.py'), d], stdout=subprocess.PIPE, stderr=subprocess.STDOUT)
    suite_ok = b.returncode == 0
    print(b.stdout.decode().strip().split('\n')[0])
    ev = os.path.join(here, 'evidence', pid + '.json')
    saved = open(ev).read() if os.path.exists(ev) else None
    env = dict(os.environ, VERIF_REPO=d)
    c = subprocess.run([os.path.join(here, 'bin', 'check'), pid, tier], cwd=here, env=env, stdout=subprocess.PIPE, stderr=subprocess.STDOUT)
    out = c.stdout.decode(errors='replace')
    vio = [l for l in out.split('\n') if l.startswith('VIOLATION')]
    for l in vio[:3]:
        print(l)
        rp = l.split('replay=')[1].split()[0]
        try:
            import json
            p = json.load(open(rp))
            print('   replay:', {k: (str(v)[:160]) for k, v in p.items() if k in ('kind', 'case', 'msg', 'theorem', 'correspondence', 'broken_theorem')})
        except Exception:
            pass
    if saved is not None:
        open(ev, 'w').write(saved)
    print('RESULT suite_passes=%s check_exit=%d detected=%s' % (suite_ok, c.returncode, bool(vio)))
finally:
    shutil.rmtree(d, ignore_errors=True)
