#!/usr/bin/env python3
"""Derive coq/Gen/OptGen.v from the source tree (property C08): the SPIFOPT_FLAG_* bit values and
type masks and the SPIFOPT_SETTING_* bits (include/libast.h), the boolean words true_vals[] /
false_vals[] (src/conf.c), the width of the bad-option counter (spifopt_settings_t.bad_opts) and
the types behind the boolean mask (spifopt_t.mask) and the short option letter.

A missing anchor is reported on stderr AND recorded in the generated file as an entry of
`optgen_errors`; theorem LV.Properties.C08.C08_source_shape (`optgen_errors = []`) then no longer
compiles, and the constant concerned is emitted as 0 / the empty list so that the model disagrees
with the implementation as well.  The script exits 0 in that case so that an unrecognisable
header breaks property C08 only (lib/vlib.py runs every tools/gen_*.py before every check).
Exit status 3 only if a source file cannot be read.  The file is rewritten only on change."""
import os, re, sys

repo = sys.argv[1] if len(sys.argv) > 1 else os.environ.get('VERIF_REPO', '/repo')
out = os.path.join(os.path.dirname(os.path.abspath(__file__)), '..', 'coq', 'Gen', 'OptGen.v')
errors = []


def err(msg):
    sys.stderr.write('gen_c08: %s\n' % msg)
    errors.append(msg)


def read(rel):
    try:
        with open(os.path.join(repo, rel), errors='replace') as f:
            return f.read()
    except OSError as e:
        sys.stderr.write('gen_c08: cannot read %s: %s\n' % (rel, e))
        sys.exit(3)


lah = read('include/libast.h')
conf = read('src/conf.c')
defs = []   # (name, type, value, provenance)


def flag(cname, coqname):
    m = re.search(r'#\s*define\s+%s\s+\(\s*1UL\s*<<\s*(\d+)\s*\)' % cname, lah)
    if not m:
        err('anchor not found: %s as (1UL << n)' % cname)
        defs.append((coqname, 'Z', '0', cname + ' NOT FOUND'))
    else:
        defs.append((coqname, 'Z', str(1 << int(m.group(1))), 'include/libast.h ' + cname))


def mask(cname, coqname):
    m = re.search(r'#\s*define\s+%s\s+\(\s*(0x[0-9a-fA-F]+)\s*\)' % cname, lah)
    if not m:
        err('anchor not found: %s as (0x....)' % cname)
        defs.append((coqname, 'Z', '0', cname + ' NOT FOUND'))
    else:
        defs.append((coqname, 'Z', str(int(m.group(1), 16)), 'include/libast.h ' + cname))


for c, n in [('SPIFOPT_FLAG_BOOLEAN', 'flag_boolean'), ('SPIFOPT_FLAG_COUNTER', 'flag_counter'),
             ('SPIFOPT_FLAG_INTEGER', 'flag_integer'), ('SPIFOPT_FLAG_STRING', 'flag_string'),
             ('SPIFOPT_FLAG_ARGLIST', 'flag_arglist'), ('SPIFOPT_FLAG_ABSTRACT', 'flag_abstract'),
             ('SPIFOPT_FLAG_PREPARSE', 'flag_preparse'), ('SPIFOPT_FLAG_DEPRECATED', 'flag_deprecated'),
             ('SPIFOPT_SETTING_PREPARSE', 'setting_preparse'), ('SPIFOPT_SETTING_REMOVE_ARGS', 'setting_remove_args')]:
    flag(c, n)
mask('SPIFOPT_FLAG_TYPEMASK_VALUE', 'flag_typemask_value')

# the SPIFOPT_OPT_IS_* tests must be plain "flags & FLAG" tests of the flag they name
for t, f in [('BOOLEAN', 'BOOLEAN'), ('INTEGER', 'INTEGER'), ('STRING', 'STRING'), ('ARGLIST', 'ARGLIST'),
             ('ABSTRACT', 'ABSTRACT'), ('PREPARSE', 'PREPARSE'), ('DEPRECATED', 'DEPRECATED')]:
    if not re.search(r'#\s*define\s+SPIFOPT_OPT_IS_%s\(n\)\s+\(SPIFOPT_OPT_FLAGS\(n\)\s*&\s*SPIFOPT_FLAG_%s\)' % (t, f), lah):
        err('SPIFOPT_OPT_IS_%s is not (flags & SPIFOPT_FLAG_%s)' % (t, f))
if not re.search(r'#\s*define\s+SPIFOPT_OPT_NEEDS_VALUE\(n\)\s+\(SPIFOPT_OPT_FLAGS\(n\)\s*&\s*SPIFOPT_FLAG_TYPEMASK_VALUE\)', lah):
    err('SPIFOPT_OPT_NEEDS_VALUE is not (flags & SPIFOPT_FLAG_TYPEMASK_VALUE)')


def words(name):
    m = re.search(r'const\s+char\s*\*\s*%s\s*\[\s*\]\s*=\s*\{([^}]*)\}' % name, conf)
    if not m:
        err('anchor not found: src/conf.c %s[]' % name)
        return []
    ws = re.findall(r'"([^"\\]*)"', m.group(1))
    if len(ws) != 4:
        err('src/conf.c %s[] does not have four plain words (BOOL_OPT_IS* compares against [0..3])' % name)
        return []
    return ws


def coq_words(ws):
    return '[' + '; '.join('[' + '; '.join(str(ord(c)) for c in w) + ']' for w in ws) + ']'


tv, fv = words('true_vals'), words('false_vals')
defs.append(('true_vals', 'list (list Z)', coq_words(tv), 'src/conf.c true_vals: ' + ' '.join(tv)))
defs.append(('false_vals', 'list (list Z)', coq_words(fv), 'src/conf.c false_vals: ' + ' '.join(fv)))
for nm, vals in (('BOOL_OPT_ISTRUE', 'true_vals'), ('BOOL_OPT_ISFALSE', 'false_vals')):
    m = re.search(r'#\s*define\s+%s\(s\)\s*\(((?:[^\n]*\\\n)*[^\n]*)\)\s*\n' % nm, lah)
    body = re.sub(r'[\\\s]', '', m.group(1)) if m else ''
    want = '||'.join('!strcasecmp((char*)s,%s[%d])' % (vals, k) for k in range(4))
    if body != want:
        err('%s is not the four-way strcasecmp against %s[0..3]' % (nm, vals))

# widths: bad_opts counter, boolean mask, short option letter
m = re.search(r'spif_uint(\d+)_t\s+bad_opts\s*;', lah)
if not m:
    err('anchor not found: spifopt_settings_t.bad_opts as spif_uintN_t')
defs.append(('bad_opts_modulus', 'Z', str(1 << int(m.group(1))) if m else '0', 'include/libast.h spifopt_settings_t.bad_opts width'))
m = re.search(r'spif_uint(\d+)_t\s+mask\s*;', lah)
if not m:
    err('anchor not found: spifopt_t.mask as spif_uintN_t')
defs.append(('mask_modulus', 'Z', str(1 << int(m.group(1))) if m else '0', 'include/libast.h spifopt_t.mask width'))

lines = ['(* GENERATED by tools/gen_c08.py from include/libast.h and src/conf.c - do not edit *)',
         'From Coq Require Import ZArith List String.', 'Import ListNotations.',
         'Local Open Scope Z_scope.', 'Local Open Scope string_scope.', '',
         '(* anchors that were not found / shapes that did not match; must be empty *)',
         'Definition optgen_errors : list string := [%s].' % '; '.join('"%s"' % e.replace('"', "'") for e in errors), '']
for (n, ty, v, prov) in defs:
    lines.append('(* %s *)' % prov.replace('*)', '* )'))
    lines.append('Definition %s : %s := %s.' % (n, ty, v))
new = '\n'.join(lines) + '\n'
os.makedirs(os.path.dirname(out), exist_ok=True)
old = None
if os.path.exists(out):
    with open(out) as f:
        old = f.read()
if old != new:
    with open(out, 'w') as f:
        f.write(new)
sys.exit(0)
