#!/usr/bin/env python3
"""Translate spiftool_temp_file (src/file.c) into coq/Gen/TempGen.v (property C11, temporary-file clause):
the size of its name buffer, the chain of getenv tests with the snprintf format and arguments of each branch,
and the statements that follow (umask / mkstemp / umask / failure test with fchmod's mode / copy back / return)
as values of the types of coq/Temp/TempDefs.v.  Temp/TempModel.v interprets them.

A statement or expression the translator does not recognise is recorded in `tempgen_errors` (and on stderr);
theorem C11_temp_source_shape then no longer checks, and the statement is left out of the translated body so that the
model and the implementation disagree as well.  Exit status 0 in that case (an unrecognisable source breaks property C11 only),
3 only if the source file cannot be read.  The file is rewritten only on change."""
import os, re, sys

repo = sys.argv[1] if len(sys.argv) > 1 else os.environ.get('VERIF_REPO', '/repo')
out = sys.argv[2] if len(sys.argv) > 2 else os.path.join(os.path.dirname(os.path.abspath(__file__)), '..', 'coq', 'Gen', 'TempGen.v')
errors = []


def err(msg):
    sys.stderr.write('gen_temp: %s\n' % msg)
    errors.append(msg)


try:
    with open(os.path.join(repo, 'src', 'file.c'), errors='replace') as f:
        src = f.read()
except OSError as e:
    sys.stderr.write('gen_temp: cannot read src/file.c: %s\n' % e)
    sys.exit(3)

src = re.sub(r'/\*.*?\*/', ' ', src, flags=re.S)
m = re.search(r'^spiftool_temp_file\(spif_charptr_t ftemplate, size_t len\)\s*\{(.*?)^\}', src, flags=re.M | re.S)
body = m.group(1) if m else ''
if not m:
    err('anchor not found: body of spiftool_temp_file(spif_charptr_t ftemplate, size_t len)')

S_BITS = {'S_IRUSR': 0o400, 'S_IWUSR': 0o200, 'S_IXUSR': 0o100, 'S_IRWXU': 0o700, 'S_IRGRP': 0o40, 'S_IWGRP': 0o20, 'S_IXGRP': 0o10,
          'S_IRWXG': 0o70, 'S_IROTH': 0o4, 'S_IWOTH': 0o2, 'S_IXOTH': 0o1, 'S_IRWXO': 0o7}


def mode_value(expr, what):
    """an integer constant (C octal / decimal / hex) or an | of S_I* names"""
    e = expr.strip()
    while e.startswith('(') and e.endswith(')'):
        e = e[1:-1].strip()
    e = re.sub(r'^\(\s*mode_t\s*\)\s*', '', e)
    v = 0
    for part in e.split('|'):
        p = part.strip().strip('()').strip()
        if p in S_BITS:
            v |= S_BITS[p]
        elif re.fullmatch(r'0[0-7]*', p):
            v |= int(p, 8) if len(p) > 1 else 0
        elif re.fullmatch(r'[1-9][0-9]*', p):
            v |= int(p)
        elif re.fullmatch(r'0[xX][0-9a-fA-F]+', p):
            v |= int(p, 16)
        else:
            err('%s: cannot evaluate "%s"' % (what, expr.strip()))
            return 0
    return v


def zlist(s):
    return '[' + '; '.join(str(b) for b in s.encode('latin-1')) + ']'


# ---- the name buffer ----
mm = re.search(r'spif_char_t\s+buff\[(\d+)\]\s*;', body)
if not mm:
    err('anchor not found: spif_char_t buff[N] in spiftool_temp_file')
buff_size = int(mm.group(1)) if mm else 0

# ---- the getenv chain: if (getenv("A")) { snprintf(...) } else if (getenv("B")) { ... } else { ... } ----
branches = []
chain = re.search(r'(if\s*\(getenv\(.*?)(?=\n\s*\w+\s*=\s*umask|\n\s*umask|\n\s*fd\s*=)', body, flags=re.S)
chain_text = chain.group(1) if chain else ''
if not chain:
    err('anchor not found: the getenv chain in spiftool_temp_file')
pos = 0
for bm in re.finditer(r'(?:(?:else\s+)?if\s*\(\s*getenv\("(\w+)"\)\s*\)|else)\s*\{\s*snprintf\(\s*\(char \*\)\s*buff\s*,\s*sizeof\(buff\)\s*,\s*"((?:[^"\\]|\\.)*)"\s*((?:,\s*[^;]*?)?)\)\s*;\s*\}', chain_text, flags=re.S):
    if chain_text[pos:bm.start()].strip():
        err('unrecognised text in the getenv chain: "%s"' % chain_text[pos:bm.start()].strip()[:60])
    pos = bm.end()
    var, fmt, args = bm.group(1), bm.group(2), bm.group(3)
    args = [a.strip() for a in args.split(',')[1:]] if args.strip() else []
    pieces, k, lit = [], 0, ''
    i = 0
    while i < len(fmt):
        if fmt[i] == '%' and i + 1 < len(fmt) and fmt[i + 1] == 's':
            if lit:
                pieces.append('PLit ' + zlist(lit))
                lit = ''
            a = args[k] if k < len(args) else None
            k += 1
            g = re.fullmatch(r'getenv\("(\w+)"\)', a or '')
            if g:
                pieces.append('PEnv ' + zlist(g.group(1)))
            elif a == 'ftemplate':
                pieces.append('PTpl')
            else:
                err('snprintf argument not recognised: "%s"' % a)
            i += 2
        elif fmt[i] == '%' or fmt[i] == '\\':
            err('format directive or escape not recognised in "%s"' % fmt)
            i += 2
        else:
            lit += fmt[i]
            i += 1
    if lit:
        pieces.append('PLit ' + zlist(lit))
    if k != len(args):
        err('snprintf: %d arguments for %d directives in "%s"' % (len(args), k, fmt))
    branches.append('(%s, [%s])' % ('Some ' + zlist(var) if var else 'None', '; '.join(pieces)))
if chain_text[pos:].strip():
    err('unrecognised text after the getenv chain: "%s"' % chain_text[pos:].strip()[:60])

# ---- the statements: ASSERTs before the chain, everything after it ----
prog = []
pre = body[:chain.start()] if chain else body
for am in re.finditer(r'ASSERT_RVAL\((.*?),\s*\(int\)\s*-1\)\s*;', pre):
    c = am.group(1).strip()
    if c == 'len > 0':
        prog.append('TRequireLen')
    elif c == '!SPIF_PTR_ISNULL(ftemplate)':
        pass        # the model's ftemplate is a buffer, never NULL (NULL arguments: property C16)
    else:
        err('ASSERT_RVAL condition not recognised: "%s"' % c)
rest = body[chain.end():] if chain else ''
saved = None
stmts = [s.strip() for s in re.split(r';\s*\n', rest) if s.strip()]
i = 0
text = re.sub(r'\s+', ' ', rest).strip()
pats = [
    (r'(\w+) = umask\(([^()]*)\);', 'save'),
    (r'umask\((\w+)\);', 'umask'),
    (r'fd = mkstemp\(\(char \*\) buff\);', 'mkstemp'),
    (r'if \(\(fd < 0\) \|\| fchmod\(fd, (.*?)\)\) \{ return \(-1\); \}', 'failif'),
    (r'if \(len\) \{ spiftool_safe_strncpy\(ftemplate, buff, len\); \}', 'copy'),
    (r'return \(fd\);', 'ret'),
]
while text:
    for pat, kind in pats:
        mm = re.match(pat + r'\s*', text)
        if mm:
            if kind == 'save':
                saved = mm.group(1)
                prog.append('TUmaskSave %d' % mode_value(mm.group(2), 'umask argument'))
            elif kind == 'umask':
                if mm.group(1) == saved:
                    prog.append('TUmaskRestore')
                elif re.fullmatch(r'\d+', mm.group(1)):
                    prog.append('TUmaskSet %d' % mode_value(mm.group(1), 'umask argument'))
                else:
                    err('umask(%s): not the saved mask and not a constant' % mm.group(1))
            elif kind == 'mkstemp':
                prog.append('TMkstemp')
            elif kind == 'failif':
                prog.append('TFailIfBad %d' % mode_value(mm.group(1), 'fchmod mode'))
            elif kind == 'copy':
                prog.append('TCopyBack')
            elif kind == 'ret':
                prog.append('TReturnFd')
            text = text[mm.end():]
            break
    else:
        # an unrecognised statement is left out whole: an if with its block, otherwise up to the semicolon
        cut = (text.find('}') + 1 if re.match(r'if\s*\(', text) and '}' in text else text.find(';') + 1) or len(text)
        err('statement not recognised: "%s"' % text[:cut][:80])
        text = text[cut:].strip()

lines = ['(* GENERATED by tools/gen_temp.py from src/file.c (spiftool_temp_file) - do not edit *)',
         'From Coq Require Import ZArith List String.', 'From LV Require Import Temp.TempDefs.', 'Import ListNotations.',
         'Local Open Scope Z_scope.', '',
         '(* spif_char_t buff[N] *)', 'Definition temp_buff_size : Z := %d.' % buff_size,
         '(* the getenv chain: (variable tested or None for the final else, the pieces of the snprintf format) *)',
         'Definition temp_branches : list (option (list Z) * list tpiece) :=', '  [%s].' % ';\n   '.join(branches),
         '(* the ASSERTs and the statements after the chain, in source order *)',
         'Definition temp_prog : list tstmt := [%s].' % '; '.join(prog),
         '(* what the translator did not recognise (must be empty) *)',
         'Definition tempgen_errors : list string := [%s].' % '; '.join('"%s"%%string' % e.replace('"', "'") for e in errors)]
text = '\n'.join(lines) + '\n'
try:
    with open(out) as f:
        old = f.read()
except OSError:
    old = None
if old != text:
    with open(out, 'w') as f:
        f.write(text)
sys.exit(0)
