#!/usr/bin/env python3
"""Run the repository's suite (guard off) and compare with /root/.vp/BASELINE.json's stable_pass list."""
import json, re, subprocess, sys
repo = sys.argv[1] if len(sys.argv) > 1 else '/repo'
out = subprocess.run(['make', '-C', repo, 'test'], stdout=subprocess.PIPE, stderr=subprocess.STDOUT).stdout.decode(errors='replace')
passed = set(m.group(1).strip() for m in re.finditer(r'^(Testing .*?)\.\.\.passed', out, flags=re.M))
base = json.load(open('/root/.vp/BASELINE.json'))['stable_pass']
missing = [t for t in base if t not in passed]
print('passed lines: %d, baseline stable: %d, missing: %d' % (len(passed), len(base), len(missing)))
for t in missing:
    print('  MISSING', t)
sys.exit(1 if missing else 0)
