#!/usr/bin/env python3
"""Run every seeded change (seeded/<id>-<n>/patch.diff) and every mutants/<Cnn>-*.patch against its
property's quick check (scratch copy of /repo, VERIF_REPO) and record the outcome in seeded/RESULTS.json
and in each seed's meta.json (key "coordinator")."""
import glob, json, os, re, subprocess, sys
here = os.path.dirname(os.path.dirname(os.path.abspath(__file__)))
only = sys.argv[1:]
items = []
for d in sorted(glob.glob(os.path.join(here, 'seeded', 'C*-*'))):
    if os.path.exists(os.path.join(d, 'patch.diff')):
        items.append((os.path.basename(d)[:3], os.path.join(d, 'patch.diff'), d))
for p in sorted(glob.glob(os.path.join(here, 'mutants', 'C*.patch'))):
    items.append((os.path.basename(p)[:3], p, None))
res_path = os.path.join(here, 'seeded', 'RESULTS.json')
results = json.load(open(res_path)) if os.path.exists(res_path) else {}
for (pid, patch, d) in items:
    if only and pid not in only:
        continue
    out = subprocess.run([os.path.join(here, 'tools', 'seedrun.py'), pid, patch], stdout=subprocess.PIPE, stderr=subprocess.STDOUT).stdout.decode(errors='replace')
    m = re.search(r'RESULT (.*)', out)
    vio = [l for l in out.split('\n') if l.startswith('VIOLATION')]
    rep = [l.strip() for l in out.split('\n') if l.strip().startswith('replay:')]
    r = dict(property=pid, result=(m.group(1) if m else 'error'), violation=(vio[0] if vio else None), replay=(rep[0][:400] if rep else None))
    key = os.path.relpath(patch, here)
    results[key] = r
    print(key, '->', r['result'], '|', (r['violation'] or '')[-60:])
    sys.stdout.flush()
    if d:
        mp = os.path.join(d, 'meta.json')
        try:
            meta = json.load(open(mp))
        except Exception:
            meta = {}
        meta['coordinator'] = dict(ran='tools/seedrun.py %s %s (scratch copy of /repo at its current head, suite compared with BASELINE.json, bin/check %s quick with VERIF_REPO)' % (pid, key, pid), **r)
        json.dump(meta, open(mp, 'w'), indent=1)
    json.dump(results, open(res_path, 'w'), indent=1)
