# /verif build: Rocq development (full .vo build), extraction, OCaml model drivers.
# Generated Coq input (coq/Gen/*.v) is re-derived from $(REPO) by tools/gen_constants.py.
REPO ?= $(or $(VERIF_REPO),/repo)
COQTIMEOUT ?= 1500
FAMILIES := $(patsubst driver/%_main.ml,%,$(wildcard driver/*_main.ml))
MODELS := $(FAMILIES:%=build/%_model)

.PHONY: setup gen coq coqproject models clean
setup: coq models

# every translator / constant extractor (tools/gen_*.py) writes its coq/Gen/*.v from $(REPO)
gen:
	@for g in tools/gen_*.py; do python3 $$g $(REPO) || echo "gen: $$g failed (only the Coq files that import its output are affected)" >&2; done

# _CoqProject lists every .v under coq/ (Gen/ included); Makefile.coq is refreshed when it changes
coqproject: gen
	@cd coq && (echo "-Q . LV"; find . -name '*.v' | sed 's|^\./||' | sort) > _CoqProject.new; \
	 if cmp -s _CoqProject.new _CoqProject; then rm _CoqProject.new; \
	 else mv _CoqProject.new _CoqProject; coq_makefile -f _CoqProject -o Makefile.coq; fi; \
	 test -f Makefile.coq || coq_makefile -f _CoqProject -o Makefile.coq

# -k and a leading '-': one family's broken file must not stop the others from building;
# every check rebuilds and re-checks exactly the .vo files its property needs and reports them.
coq: coqproject
	-cd coq && timeout $(COQTIMEOUT) $(MAKE) -f Makefile.coq -j16 -k

# one .vo (used by the checks so that a broken proof elsewhere does not block a property)
vo-%: coqproject
	cd coq && timeout $(COQTIMEOUT) $(MAKE) -f Makefile.coq -j16 -k $(subst __,/,$*).vo

models:
	-$(MAKE) -k $(MODELS)
	@mkdir -p build/good; for m in $(MODELS); do test -x $$m && cp -p $$m build/good/; done; true

build/%_model: coq/Extract/Extract_%.v driver/%_main.ml driver/common.ml coq/Extract/Extract_%.vo
	@mkdir -p build/ocaml/$*
	cd build/ocaml/$* && coqc -Q ../../../coq LV ../../../coq/Extract/Extract_$*.v >/dev/null
	cat build/ocaml/$*/$*_model.ml driver/common.ml driver/$*_main.ml > build/ocaml/$*/$*_all.ml
	(cd build/ocaml/$* && ocamlfind ocamlopt -O2 -w -a $*_all.ml -o ../../$*_model 2>/dev/null) || \
	  (cd build/ocaml/$* && ocamlfind ocamlopt -w -a $*_all.ml -o ../../$*_model)

coq/Extract/Extract_%.vo: coqproject FORCE
	cd coq && timeout $(COQTIMEOUT) $(MAKE) -f Makefile.coq -j16 Extract/Extract_$*.vo

FORCE:

clean:
	rm -rf build coq/Makefile.coq coq/Makefile.coq.conf coq/.Makefile.coq.d
	find coq -name '*.vo' -o -name '*.vok' -o -name '*.vos' -o -name '*.glob' -o -name '.*.aux' | xargs rm -f
