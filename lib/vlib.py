"""Shared machinery of the libast verification checks (see DESIGN.md sections 2, 4, 5).

A check is described by a PropertyCheck subclass (checks/cNN.py).  run_check() does, in order:
regenerate coq/Gen from the source tree, build and re-check the property's theorems, rebuild
the implementation + harness from the source tree, generate cases, run the extracted model and
the implementation on the same cases, compare (level A = observables the property constrains,
level B = everything else the model predicts), search for a failing input when a proof or
the correspondence broke, write evidence, print VIOLATION / KNOWN-FINDING lines.
"""
import fcntl, glob, hashlib, json, os, random, re, shutil, subprocess, sys, time

VERIF = os.path.dirname(os.path.dirname(os.path.abspath(__file__)))
REPO = os.environ.get('VERIF_REPO', '/repo')
BUILD = os.path.join(VERIF, 'build')
COQ = os.path.join(VERIF, 'coq')
NCPU = os.cpu_count() or 4

LIB_SOURCES = None  # filled from src/Makefile.am

ALLOWED_AXIOMS = {
    # standard-library axioms that may appear (named in DESIGN.md section 6); none is declared here
    'FunctionalExtensionality.functional_extensionality_dep',
    'functional_extensionality_dep',
    'Eqdep.Eq_rect_eq.eq_rect_eq', 'eq_rect_eq',
    'Classical_Prop.classic', 'classic',
    'ProofIrrelevance.proof_irrelevance', 'proof_irrelevance',
    'JMeq.JMeq_eq', 'JMeq_eq',
}

FORBIDDEN = re.compile(r'\b(Admitted|admit|Axiom|Parameter|Conjecture|Hypothesis|Variable|Admit Obligations)\b|Unset Guard|bypass_check|type-in-type|impredicative-set')


def sh(cmd, cwd=None, timeout=None, env=None, stdin=None):
    """run a command, return (exit status, stdout, stderr); status -9 on timeout"""
    e = dict(os.environ)
    if env:
        e.update(env)
    try:
        p = subprocess.run(cmd, cwd=cwd, env=e, timeout=timeout, input=stdin,
                           stdout=subprocess.PIPE, stderr=subprocess.PIPE, shell=isinstance(cmd, str))
        return p.returncode, p.stdout.decode(errors='replace'), p.stderr.decode(errors='replace')
    except subprocess.TimeoutExpired as ex:
        return -9, (ex.stdout or b'').decode(errors='replace'), (ex.stderr or b'').decode(errors='replace') + '\n[timeout]'


class Lock:
    """inter-process lock, re-entrant within this process"""
    held = {}
    def __init__(self, name):
        os.makedirs(BUILD, exist_ok=True)
        self.name = name
        self.path = os.path.join(BUILD, '.' + name + '.lock')
    def __enter__(self):
        if Lock.held.get(self.name, 0) == 0:
            self.f = open(self.path, 'w')
            fcntl.flock(self.f, fcntl.LOCK_EX)
            Lock.held['f_' + self.name] = self.f
        Lock.held[self.name] = Lock.held.get(self.name, 0) + 1
    def __exit__(self, *a):
        Lock.held[self.name] -= 1
        if Lock.held[self.name] == 0:
            f = Lock.held.pop('f_' + self.name)
            fcntl.flock(f, fcntl.LOCK_UN)
            f.close()


# --------------------------------------------------------------------------------------
# Coq side
# --------------------------------------------------------------------------------------
def coq_sources():
    out = []
    for root, _, files in os.walk(COQ):
        for f in files:
            if f.endswith('.v'):
                out.append(os.path.relpath(os.path.join(root, f), COQ))
    return sorted(out)


def dep_closure(rel):
    """the .v files (relative to coq/) a file transitively Requires from the LV root"""
    seen, todo = set(), [rel]
    while todo:
        r = todo.pop()
        if r in seen or not os.path.exists(os.path.join(COQ, r)):
            continue
        seen.add(r)
        with open(os.path.join(COQ, r)) as f:
            text = f.read()
        MOD = r'[A-Za-z_]\w*(?:\.[A-Za-z_]\w*)*'
        for m in re.finditer(r'Require\s+(?:Import\s+|Export\s+)?((?:' + MOD + r'\s+)*' + MOD + r')\s*\.(?=\s|$)', text):
            for mod in m.group(1).split():
                mod = mod.strip()
                if mod.startswith('LV.'):
                    mod = mod[3:]
                cand = mod.replace('.', '/') + '.v'
                if os.path.exists(os.path.join(COQ, cand)):
                    todo.append(cand)
    return sorted(seen)


def forbidden_scan(only=None):
    """grep the development (or the given files) for commands that would declare axioms or
    switch off checks"""
    hits = []
    for rel in (only if only is not None else coq_sources()):
        with open(os.path.join(COQ, rel)) as f:
            text = f.read()
        # strip comments (non-nested is enough for our sources; nested handled by loop)
        prev = None
        while prev != text:
            prev = text
            text = re.sub(r'\(\*[^()]*?\*\)', ' ', text, flags=re.S)
        in_section = 0
        for i, line in enumerate(text.split('\n')):
            if re.match(r'\s*Section\b', line):
                in_section += 1
            if re.match(r'\s*End\b', line) and in_section:
                in_section -= 1
            m = FORBIDDEN.search(line)
            if m:
                if m.group(1) in ('Variable', 'Hypothesis') and in_section:
                    continue
                hits.append('%s:%d: %s' % (rel, i + 1, line.strip()))
    return hits


def coq_build(prop_vo, deps_timeout=1500, relevant_gens=None):
    """Regenerate Gen/, (re)build the property's .vo and everything it needs.
    A generator that fails is an error only for the properties it serves (relevant_gens);
    for the others it is noted and its previous output is left in place.
    Returns dict(ok, log, failed_file, gen_error)."""
    with Lock('coq'):
        notes = []
        for gen in sorted(glob.glob(os.path.join(VERIF, 'tools', 'gen_*.py'))):
            rc, o, e = sh(['python3', gen, REPO])
            if rc != 0:
                name = os.path.basename(gen)
                if relevant_gens is None or name in relevant_gens:
                    return dict(ok=False, log=o + e, failed='Gen/ (%s: the source no longer has the shape the translator reads)' % name,
                                gen_error=True)
                notes.append('%s failed (not used by this property): %s' % (name, (o + e)[-200:]))
        rc, o, e = sh(['make', '-s', '-C', VERIF, 'coqproject'])
        target = prop_vo
        rc, o, e = sh('cd %s && timeout %d make -f Makefile.coq -j%d -k %s 2>&1' % (COQ, deps_timeout, NCPU, target))
        log = o + e
        failed = None
        if rc != 0:
            m = re.search(r'File "\./([^"]+)", line (\d+)', log)
            failed = (m.group(1) + ':' + m.group(2)) if m else 'unknown'
        return dict(ok=(rc == 0), log=log, failed=failed, gen_error=False, notes=notes)


def property_files(prop_id):
    """Properties/Cnn.v plus any Properties/Cnn_<part>.v (parts added by separate work packages)"""
    files = ['Properties/%s.v' % prop_id]
    files += sorted(os.path.relpath(f, COQ) for f in glob.glob(os.path.join(COQ, 'Properties', '%s_*.v' % prop_id)))
    return files


def coq_property_file(prop_id, rel, b):
    """compile one property file; returns dict(theorems, discharged, ok, assumptions, closed, log, failed)"""
    with open(os.path.join(COQ, rel)) as f:
        text = f.read()
    theorems = re.findall(r'^\s*Theorem\s+(\w+)', text, flags=re.M)
    res = dict(theorems=theorems, discharged=0, ok=False, assumptions=[], closed=0, log='', failed=None)
    with Lock('coq'):
        rc, o, e = sh('cd %s && timeout 900 coqc -Q . LV %s 2>&1' % (COQ, rel))
    res['log'] = (o + e)[-6000:]
    if rc == 0:
        res['ok'] = True
        res['discharged'] = len(theorems)
        ax = set()
        for m in re.finditer(r'^Axioms:\n((?:.+\n?)+?)(?=^\S|\Z)', o, flags=re.M):
            for line in m.group(1).split('\n'):
                mm = re.match(r'^(\S+)\s*:', line)
                if mm:
                    ax.add(mm.group(1))
        res['assumptions'] = sorted(ax)
        res['closed'] = o.count('Closed under the global context')
        return res
    m = re.search(r'File "[^"]*%s", line (\d+)' % re.escape(os.path.basename(rel)), o + e)
    if b.get('failed') and not b['failed'].startswith('Properties/'):
        # a lemma file the property rests on no longer compiles
        res['failed'] = 'LV.' + b['failed'].replace('/', '.').replace('.v:', ' (line ') + ')'
    elif m:
        ln = int(m.group(1))
        upto = '\n'.join(text.split('\n')[:ln - 1])
        done = re.findall(r'^\s*Theorem\s+(\w+)', upto, flags=re.M)
        res['discharged'] = max(0, len(done) - 1)       # the theorem containing the failing line is not discharged
        res['failed'] = 'LV.%s.%s' % (rel[:-2].replace('/', '.'), done[-1] if done else '?')
    else:
        res['failed'] = 'LV.' + rel[:-2].replace('/', '.')
    return res


def coq_property(prop_id, relevant_gens=None):
    """Regenerate Gen/, rebuild what the property's files need, recompile each of them unconditionally,
    collect theorem names and Print Assumptions."""
    files = property_files(prop_id)
    res = dict(theorems=[], obligations=0, discharged=0, assumptions=[], ok=True, closed=0, log='', files=files,
               checker_cmd='cd %s && make -f Makefile.coq -k %s && ' % (COQ, ' '.join(f + 'o' for f in files)) +
                           ' && '.join('coqc -Q . LV %s' % f for f in files))
    for rel in files:
        with open(os.path.join(COQ, rel)) as f:
            res['theorems'] += re.findall(r'^\s*Theorem\s+(\w+)', f.read(), flags=re.M)
    res['obligations'] = len(res['theorems'])
    b = coq_build(' '.join(f + 'o' for f in files), relevant_gens=relevant_gens)
    res['build_log'] = b['log'][-4000:]
    if b.get('gen_error'):
        res['ok'] = False
        res['failed'] = b['failed']
        res['log'] = b['log']
        return res
    ax = set()
    for rel in files:
        r = coq_property_file(prop_id, rel, b)
        res['discharged'] += r['discharged']
        res['closed'] += r['closed']
        ax.update(r['assumptions'])
        if not r['ok']:
            res['ok'] = False
            res.setdefault('failed', r['failed'])
            res['log'] += r['log']
    res['assumptions'] = sorted(ax)
    return res


def build_model(family):
    with Lock('coq'):
        rc, o, e = sh(['make', '-s', '-C', VERIF, 'build/%s_model' % family], timeout=1800)
    exe = os.path.join(BUILD, '%s_model' % family)
    if rc != 0 or not os.path.exists(exe):
        return None, o + e
    return exe, o + e


def good_model(family):
    """the extracted model as last built from a tree on which the property's proofs checked
    (saved by `make setup` on the fresh tree and refreshed by every passing run)"""
    p = os.path.join(BUILD, 'good', '%s_model' % family)
    return p if os.path.exists(p) else None


def save_good_model(family, exe):
    d = os.path.join(BUILD, 'good')
    os.makedirs(d, exist_ok=True)
    tmp = os.path.join(d, '.%s_model.%d' % (family, os.getpid()))
    shutil.copy2(exe, tmp)
    os.replace(tmp, os.path.join(d, '%s_model' % family))


# --------------------------------------------------------------------------------------
# Implementation side
# --------------------------------------------------------------------------------------
def lib_sources():
    with open(os.path.join(REPO, 'src', 'Makefile.am')) as f:
        text = f.read().replace('\\\n', ' ')
    m = re.search(r'libast_la_SOURCES\s*=\s*(.*)', text)
    return m.group(1).split()


def build_impl(key, harness, sanitize=True, debug=None, cflags=(), ldflags=(), exclude=(), extra_sources=(), opt='-O1'):
    """Compile every library source of the current tree plus the harness.
    key: directory name under build/impl.  debug: DEBUG level override (config.h copy).
    exclude: library sources the harness #includes itself.  Returns (exe, log)."""
    d = os.path.join(BUILD, 'impl', key)
    shutil.rmtree(d, ignore_errors=True)
    os.makedirs(d)
    inc = []
    if debug is not None:
        with open(os.path.join(REPO, 'config.h')) as f:
            cfg = f.read()
        cfg2, n = re.subn(r'#define DEBUG \d+', '#define DEBUG %d' % debug, cfg)
        if n != 1:
            return None, 'config.h: DEBUG line not found'
        with open(os.path.join(d, 'config.h'), 'w') as f:
            f.write(cfg2)
        inc.append('-I' + d)
    inc += ['-I' + REPO, '-I' + os.path.join(REPO, 'include'), '-I' + os.path.join(REPO, 'include', 'libast'),
            '-I' + os.path.join(REPO, 'src'), '-I' + os.path.join(VERIF, 'harness')]
    base = ['gcc', '-g', opt, '-w', '-DHAVE_CONFIG_H', '-DLIBAST_VERIF', '-fno-omit-frame-pointer'] + inc
    if sanitize:
        base += ['-fsanitize=address,undefined', '-fno-sanitize-recover=all']
    base += list(cflags)        # after the sanitizer flags, so a check can switch one UBSan check off
    jobs = []
    objs = []
    srcs = [os.path.join(REPO, 'src', s) for s in lib_sources() if s not in exclude]
    srcs += [harness] + list(extra_sources)
    for s in srcs:
        o = os.path.join(d, os.path.basename(s)[:-2] + '.o')
        objs.append(o)
        jobs.append(subprocess.Popen(base + ['-c', s, '-o', o], stdout=subprocess.PIPE, stderr=subprocess.STDOUT))
    log = ''
    ok = True
    for j in jobs:
        out, _ = j.communicate()
        log += out.decode(errors='replace')
        ok = ok and j.returncode == 0
    if not ok:
        return None, log
    exe = os.path.join(d, 'harness')
    link = ['gcc', '-g'] + (['-fsanitize=address,undefined'] if sanitize else []) + objs + ['-o', exe] + list(ldflags) + \
           ['-lpcre', '-lX11', '-lm', '-ldl', '-lpthread']
    rc, o, e = sh(link)
    log += o + e
    if rc != 0:
        return None, log
    return exe, log


SAN_ENV = {
    'ASAN_OPTIONS': 'detect_leaks=0:abort_on_error=0:exitcode=99:allocator_may_return_null=1:detect_stack_use_after_return=0:print_legend=0:print_full_thread_history=0',
    'UBSAN_OPTIONS': 'halt_on_error=1:print_stacktrace=0:exitcode=98',
}


def classify_crash(stderr, rc):
    """map a sanitizer report / signal onto the model's fault names"""
    s = stderr
    ma = re.search(r'FATAL:\s+ASSERT failed(?: in (\w+)\(\))? at ([\w./-]+):(\d+):\s+(.*)', s)
    if ma and rc in (255, -1):
        # the library's own fatal-error path (libast_fatal_error -> exit(-1)) taken by a failed ASSERT
        return 'FAULT:fatal-assert:%s:%s' % (ma.group(1) or '?', ma.group(4).strip()[:120])
    m = re.search(r'AddressSanitizer: ([\w-]+)', s)
    if m:
        kind = m.group(1)
        acc = 'READ' if re.search(r'\bREAD of size', s) else ('WRITE' if re.search(r'\bWRITE of size', s) else '')
        if kind in ('heap-buffer-overflow', 'stack-buffer-overflow', 'global-buffer-overflow', 'stack-buffer-underflow',
                    'dynamic-stack-buffer-overflow', 'container-overflow', 'use-after-poison', 'negative-size-param',
                    'memcpy-param-overlap', 'strcpy-param-overlap'):
            return 'FAULT:' + ('OOB_write' if acc == 'WRITE' else 'OOB_read') + ':' + kind
        if kind == 'heap-use-after-free':
            return 'FAULT:Use_after_free'
        if kind in ('attempting', 'double-free', 'bad-free', 'alloc-dealloc-mismatch'):
            return 'FAULT:Bad_free:' + kind
        if kind == 'SEGV':
            return 'FAULT:Null_deref:SEGV'
        if kind == 'stack-overflow':
            return 'FAULT:Out_of_fuel:stack-overflow'
        return 'FAULT:asan:' + kind
    if 'runtime error:' in s:
        m = re.search(r'runtime error: (.*)', s)
        return 'FAULT:ubsan:' + (m.group(1)[:60].replace(' ', '_') if m else '')
    if rc == -9:
        return 'FAULT:Out_of_fuel:timeout'
    if rc < 0:
        return 'FAULT:signal:%d' % (-rc)
    return 'FAULT:exit:%d' % rc


def run_cases(exe, cases_path, ncases, env=None, timeout_per_run=120, args=(), max_faults=150, stderr_file=None):
    """Run an executable over a case file; returns list of result strings indexed by case.
    A crash / hang at case k is recorded as a FAULT:... result and the run resumes at k+1."""
    results = [None] * ncases
    start = 0
    e = dict(SAN_ENV)
    if env:
        e.update(env)
    details = {}
    guard = 0
    while start < ncases:
        guard += 1
        if stderr_file:
            # noisy runs (debug traces): stderr goes to a file and only its tail is read
            with open(stderr_file, 'wb') as ef:
                try:
                    p = subprocess.run([exe, cases_path, str(start)] + list(args), env=dict(os.environ, **e), timeout=timeout_per_run,
                                       stdout=subprocess.PIPE, stderr=ef)
                    rc, o = p.returncode, p.stdout.decode(errors='replace')
                except subprocess.TimeoutExpired as ex:
                    rc, o = -9, (ex.stdout or b'').decode(errors='replace')
            with open(stderr_file, 'rb') as ef:
                ef.seek(0, 2)
                size = ef.tell()
                ef.seek(max(0, size - 200000))
                err = ef.read().decode(errors='replace')
        else:
            rc, o, err = sh([exe, cases_path, str(start)] + list(args), env=e, timeout=timeout_per_run)
        last = None
        for line in o.split('\n'):
            if line.startswith('#'):
                sp = line.find(' ')
                try:
                    k = int(line[1:sp] if sp > 0 else line[1:])
                except ValueError:
                    continue
                last = k
                if k < ncases:
                    results[k] = line[sp + 1:] if sp > 0 else ''
        if rc == 0 and (last == ncases - 1 or start >= ncases):
            break
        # crashed or hung while running case `last` (marker printed before the case ran)
        k = last if last is not None else start
        if rc == 0:
            # finished early without reaching the end: nothing more to read
            break
        results[k] = classify_crash(err, rc)
        details[k] = err[-3000:]
        start = k + 1
        if len(details) >= max_faults:
            # a tree this broken needs no more evidence: stop, the caller truncates the case list
            details['truncated_at'] = start
            break
        if guard > ncases + 5:
            break
    return results, details


def run_model(exe, cases_path, ncases, timeout=600):
    rc, o, e = sh([exe, cases_path], timeout=timeout, env={'OCAMLRUNPARAM': 'l=512M'})
    results = [None] * ncases
    for line in o.split('\n'):
        if line.startswith('#'):
            sp = line.find(' ')
            k = int(line[1:sp])
            if k < ncases:
                results[k] = line[sp + 1:]
    return results, (rc, e)


# ASSERTs that are fatal by design at runtime debug level >= 1 (property C16/C20): a NULL object or
# pointer argument, and the few documented programming-error checks of the unchanged library
# (grep ASSERT src/*.c: descriptor >= 0 in the *_init_from_fd readers, len > 0 in spiftool_temp_file,
# the X11 trackers).  Any OTHER assertion that fires on a generated input under the debug-level pass
# ends the process where the property promises a result, and is reported.
ASSERT_BY_DESIGN = re.compile(r'ISNULL|!=\s*(\([^)]*\)\s*)?NULL|!=\s*None\b|^\(?fd >= 0\)?$|^len > 0$|^\(?s|str|self|buff?|ptr|obj|item|key|value|other|data|path|file|list|fp\)?\s*!=')


def assert_by_design(result):
    m = re.match(r'FAULT:fatal-assert:[^:]*:(.*)', result or '')
    return bool(m and ASSERT_BY_DESIGN.search(m.group(1)))


# --------------------------------------------------------------------------------------
# Known findings
# --------------------------------------------------------------------------------------
def load_known():
    p = os.path.join(VERIF, 'known_findings.json')
    if not os.path.exists(p):
        return []
    with open(p) as f:
        return json.load(f).get('findings', [])


# --------------------------------------------------------------------------------------
# The check driver
# --------------------------------------------------------------------------------------
class PropertyCheck:
    """Override in checks/cNN.py."""
    id = 'C00'
    family = None            # model driver / extraction name (driver/<family>_main.ml)
    harness = None           # harness/<name>.c
    nontrivial_rule = ''
    assumptions = []
    impl_kwargs = {}
    case_timeout = 120

    def gen(self, tier, rng):
        """return list of case lines (strings without newline)"""
        raise NotImplementedError

    def search_gen(self, tier, rng):
        """larger generator used when a proof or the correspondence broke"""
        return self.gen('thorough', rng)

    def split(self, case, out):
        """split a result string into (A part, B part): A = what the property constrains"""
        return out, ''

    def is_fault(self, out):
        return out is not None and out.startswith('FAULT')

    def fault_equiv(self, m, i):
        """both sides faulted: same class? (kind strings differ between model and sanitizer)"""
        return True

    def nontrivial(self, case, mout):
        return True

    def oracle(self, case, iout):
        """optional model-independent level-A oracle on the implementation's output:
        return None if fine, else a message"""
        return None

    def known_match(self, finding, case, mout, iout):
        """does a listed finding (dict from known_findings.json) cover this disagreement?"""
        sig = finding.get('match', {})
        if 'case_regex' in sig and not re.search(sig['case_regex'], case):
            return False
        if 'impl_regex' in sig and not re.search(sig['impl_regex'], iout or ''):
            return False
        return 'case_regex' in sig or 'impl_regex' in sig

    def extra_steps(self, ctx):
        """hook for additional per-property work (returns list of (level, case, msg))"""
        return []

    def build_impl(self):
        return build_impl(getattr(self, 'runkey', self.id.lower()), os.path.join(VERIF, 'harness', self.harness), **self.impl_kwargs)


def compare(chk, cases, mouts, iouts):
    """returns list of disagreements: dict(level, k, case, model, impl, msg)"""
    dis = []
    for k, case in enumerate(cases):
        m, i = mouts[k], iouts[k]
        if m is None or i is None:
            dis.append(dict(level='B', k=k, case=case, model=m, impl=i, msg='missing output'))
            continue
        if m.startswith('DRIVER-ERROR') or i.startswith('HARNESS-ERROR'):
            dis.append(dict(level='B', k=k, case=case, model=m, impl=i, msg='glue error'))
            continue
        mf, jf = chk.is_fault(m), chk.is_fault(i)
        if mf and jf:
            if not chk.fault_equiv(m, i):
                dis.append(dict(level='B', k=k, case=case, model=m, impl=i, msg='different fault class'))
            continue
        if jf and not mf:
            dis.append(dict(level='A', k=k, case=case, model=m, impl=i, msg='implementation faults where the model (and the property) say it must not'))
            continue
        if mf and not jf:
            dis.append(dict(level='B', k=k, case=case, model=m, impl=i, msg='model predicts a fault the sanitizer did not see'))
            continue
        om = chk.oracle(case, i)
        if om:
            dis.append(dict(level='A', k=k, case=case, model=m, impl=i, msg='oracle: ' + om))
            continue
        if m == i:
            continue
        ma, mb = chk.split(case, m)
        ia, ib = chk.split(case, i)
        if ma != ia:
            dis.append(dict(level='A', k=k, case=case, model=m, impl=i, msg='observable constrained by the property differs from the ideal'))
        else:
            dis.append(dict(level='B', k=k, case=case, model=m, impl=i, msg='implementation differs from the model in an observable the property leaves open'))
    return dis


def write_replay(prop, name, payload):
    d = os.path.join(BUILD, 'replay')
    os.makedirs(d, exist_ok=True)
    h = hashlib.sha1(json.dumps(payload, sort_keys=True).encode()).hexdigest()[:10]
    p = os.path.join(d, '%s-%s-%s.json' % (prop, name, h))
    with open(p, 'w') as f:
        json.dump(payload, f, indent=1)
    return p


def run_pair(chk, model_exe, impl_exe, cases, tag):
    work = os.path.join(BUILD, 'work', chk.id.lower())
    os.makedirs(work, exist_ok=True)
    # per-process file: concurrent runs of one property (quick and thorough, or two trees) must not share it
    path = os.path.join(work, 'cases-%s-%d.txt' % (tag, os.getpid()))
    chk.last_cases_path = path
    with open(path, 'w') as f:
        for c in cases:
            f.write(c + '\n')
    mouts, minfo = run_model(model_exe, path, len(cases))
    iouts, idetails = run_cases(impl_exe, path, len(cases), timeout_per_run=chk.case_timeout)
    cut = idetails.get('truncated_at')
    if cut is not None:
        del cases[cut:]
        mouts, iouts = mouts[:cut], iouts[:cut]
    return mouts, iouts, idetails


def run_check(chk, argv):
    t0 = time.time()
    tier = 'quick'
    replay = None
    args = list(argv)
    while args:
        a = args.pop(0)
        if a in ('quick', 'thorough'):
            tier = a
        elif a == '--replay':
            replay = args.pop(0)
    tier = os.environ.get('VERIF_TIER', tier) if not argv else tier
    chk.tier = tier
    chk.runkey = '%s-%s-%d' % (chk.id.lower(), tier, os.getpid())
    seed = int(os.environ.get('VERIF_SEED', '20260930'))
    rng = random.Random(seed * 1000003 + int(chk.id[1:]))
    os.makedirs(os.path.join(VERIF, 'evidence'), exist_ok=True)
    ev = dict(property_id=chk.id, tier=tier, seed=seed, level='proof', coverage={}, assumptions=list(chk.assumptions),
              wall_s=0.0, violations=0)
    cov = ev['coverage']
    violations = []     # (replay path, suffix)
    known_hits = []

    def finish():
        # keep the evidence schema-valid whatever a check put in: typed keys, non-empty samples
        for key, ty in (('exhaustive', bool), ('evaluations', int), ('distinct_nontrivial', int), ('obligations', int),
                        ('discharged', int), ('traces_validated_against_impl', int)):
            if key in cov and not isinstance(cov[key], ty):
                cov[key + '_note'] = cov.pop(key)
        if not cov.get('samples'):
            cov['samples'] = [dict(note='no case was run', theorems=cov.get('theorems', [])[:3])]
        ev['wall_s'] = round(time.time() - t0, 2)
        ev['violations'] = len(violations)
        with open(os.path.join(VERIF, 'evidence', chk.id + '.json'), 'w') as f:
            json.dump(ev, f, indent=1)
        for kh in known_hits:
            print('KNOWN-FINDING: property=%s %s' % (chk.id, kh))
        for (p, suffix) in violations:
            print('VIOLATION property=%s replay=%s%s' % (chk.id, p, (' ' + suffix) if suffix else ''))
        sys.stdout.flush()
        # per-run scratch (implementation build, case files) is removed; replay files stay
        shutil.rmtree(os.path.join(BUILD, 'impl', chk.runkey), ignore_errors=True)
        for f in glob.glob(os.path.join(BUILD, 'work', chk.id.lower(), 'cases-*-%d.txt' % os.getpid())):
            try:
                os.remove(f)
            except OSError:
                pass
        return 1 if violations else 0

    # ---- 1/2: proof step -------------------------------------------------------------
    coq_lock = Lock('coq')
    coq_lock.__enter__()          # generation, proof step and extraction see one consistent Gen/
    try:
        gens = getattr(chk, 'generators', None) or ['gen_constants.py', 'gen_%s.py' % chk.family, 'gen_%s.py' % chk.id.lower()]
        pr = coq_property(chk.id, relevant_gens=gens)
        model_exe, mlog = build_model(chk.family)
    finally:
        coq_lock.__exit__()
    closure = sorted(set(x for f in property_files(chk.id) for x in dep_closure(f)))
    forb = forbidden_scan(closure)       # the files this property's theorems rest on
    cov['development_files'] = closure
    other = [h for h in forbidden_scan() if h not in forb]
    if other:
        cov['forbidden_elsewhere_note'] = other[:5]
    cov['obligations'] = pr['obligations']
    cov['discharged'] = pr['discharged'] if not forb else 0
    cov['checker_cmd'] = pr['checker_cmd']
    cov['theorems'] = pr['theorems']
    tb = ['Coq 8.16.1 kernel (coqc), vm_compute; no native_compute',
          'Print Assumptions: ' + (', '.join(pr['assumptions']) if pr['assumptions'] else
                                   ('Closed under the global context (x%d)' % pr.get('closed', 0)))]
    tb += ['extraction: ExtrOcamlBasic only, no Extract Constant; OCaml 4.13.1',
           getattr(chk, 'tie_text', None) or
           'correspondence harness: gcc + ASan/UBSan build of /repo/src, harness/%s, driver/%s_main.ml, lib/vlib.py' % (chk.harness, chk.family)]
    cov['trusted_base'] = tb
    if tier == 'thorough' and pr['ok'] and not os.environ.get('VERIF_NO_COQCHK'):
        with Lock('coqchk'):
            mods = ' '.join('LV.' + f[:-2].replace('/', '.') for f in property_files(chk.id))
            rc, o, e = sh('cd %s && timeout 2400 coqchk -o -silent -Q . LV %s 2>&1' % (COQ, mods))
        cov['coqchk'] = dict(cmd='coqchk -o -silent -Q . LV %s' % mods, exit=rc, tail=(o + e)[-1500:])
        tb.append('coqchk -o (independent checker) exit %d; axioms it lists: %s' % (rc, re.sub(r'\s+', ' ', (o + e)[-600:])))
        if rc not in (0,):
            pr['ok'] = False
            pr['failed'] = 'coqchk LV.Properties.%s' % chk.id
    bad_axioms = [a for a in pr['assumptions'] if a not in ALLOWED_AXIOMS]
    proof_broken = None
    if forb:
        proof_broken = 'forbidden command in development: ' + '; '.join(forb[:5])
    elif not pr['ok']:
        proof_broken = 'theorem no longer checks: %s' % pr.get('failed')
        cov['proof_log_tail'] = pr['log'][-1500:]
    elif bad_axioms:
        proof_broken = 'unexpected axioms: ' + ', '.join(bad_axioms)

    # ---- 3: implementation + model ----------------------------------------------------
    impl_exe, ilog = chk.build_impl()
    if impl_exe is None:
        # the tree no longer builds with the harness: the tie cannot be established
        p = write_replay(chk.id, 'build', dict(kind='build-failure', log=ilog[-4000:]))
        violations.append((p, 'no-failing-input-found'))
        cov['explanation'] = 'implementation/harness build failed'
        return finish()
    if model_exe is None:
        # The model no longer builds from this tree (a translated input changed shape or a generated
        # constant broke a definition).  Search with the model of the last tree whose proofs checked:
        # it is the function the theorems are about, so an implementation that differs from it on an
        # observable the property constrains has a failing input.
        proof_broken = proof_broken or 'model no longer builds from this tree'
        model_exe = good_model(chk.family)
        cov['model_used'] = 'last good build (the current tree\'s model does not build)' if model_exe else 'none'
    elif pr['ok'] and not forb:
        save_good_model(chk.family, model_exe)

    ctx = dict(tier=tier, rng=rng, model_exe=model_exe, impl_exe=impl_exe, ev=ev, cov=cov)

    # ---- replay mode -------------------------------------------------------------------
    if replay:
        with open(replay) as f:
            payload = json.load(f)
        cases = payload.get('cases') or [payload['case']]
        if payload.get('env'):
            os.environ.update(payload['env'])       # the environment pass the failure was seen under
        mouts, iouts, det = run_pair(chk, model_exe, impl_exe, cases, 'replay')
        for c, m, i in zip(cases, mouts, iouts):
            print('case : %s\nmodel: %s\nimpl : %s' % (c, m, i))
        dis = compare(chk, cases, mouts, iouts)
        if 'LV_DEBUG_LEVEL' in (payload.get('env') or {}):
            # the same rule as the debug-level pass below: an ASSERT that is fatal by design is no disagreement
            for d in dis:
                if assert_by_design(d['impl']):
                    print('BY-DESIGN %s: %s' % (d['case'], d['impl']))
            dis = [d for d in dis if not assert_by_design(d['impl'])]
        for d in dis:
            print('DISAGREE[%s] %s' % (d['level'], d['msg']))
        return 1 if dis else 0

    # ---- 4: corpus + generated cases ---------------------------------------------------
    cases = []
    corpus_dir = os.path.join(VERIF, 'corpus', chk.id)
    ncorpus = 0
    if os.path.isdir(corpus_dir):
        for fn in sorted(os.listdir(corpus_dir)):
            with open(os.path.join(corpus_dir, fn)) as f:
                for line in f:
                    line = line.rstrip('\n')
                    if line and not line.startswith('//'):
                        cases.append(line)
                        ncorpus += 1
    gen_cases = chk.gen(tier, rng)
    cases += gen_cases
    dis = []
    mouts = iouts = []
    if model_exe:
        mouts, iouts, det = run_pair(chk, model_exe, impl_exe, cases, 'main')
        dis = compare(chk, cases, mouts, iouts)
    cov['evaluations'] = len(cases)
    cov['corpus_cases'] = ncorpus
    seen = set()
    nt = 0
    hist = {}
    for k, c in enumerate(cases):
        op = c.split(' ', 1)[0]
        hist[op] = hist.get(op, 0) + 1
        if c in seen:
            continue
        seen.add(c)
        if mouts and mouts[k] is not None and chk.nontrivial(c, mouts[k]):
            nt += 1
    cov['distinct_nontrivial'] = nt
    cov['rule'] = chk.nontrivial_rule
    cov['operation_histogram'] = hist
    cov['traces_validated_against_impl'] = len(cases) - len(dis)
    samples = []
    step = max(1, len(cases) // 3)
    for k in range(0, len(cases), step)[:3]:
        samples.append(dict(case=cases[k], model=(mouts[k] if mouts else None), impl=(iouts[k] if iouts else None)))
    cov['samples'] = samples
    # ---- 4b: environment passes: a sample of the same cases at runtime debug level 4 and with a stale errno;
    #          neither may change anything the model (= the ideal object) predicts
    if model_exe and cases and getattr(chk, 'env_passes', True):
        nmax = 2500 if tier == 'quick' else 12000
        step_e = 1 if os.environ.get('VERIF_ENV_ALL') else max(1, len(cases) // nmax)     # VERIF_ENV_ALL=1: every case (a sweep for by-hand use)
        idx = sorted(set(list(range(0, min(ncorpus, len(cases)))) + list(range(0, len(cases), step_e))))
        sub = [cases[k] for k in idx]
        work = os.path.join(BUILD, 'work', chk.id.lower())
        spath = os.path.join(work, 'cases-env-%d.txt' % os.getpid())
        with open(spath, 'w') as f:
            for c in sub:
                f.write(c + '\n')
        # debug level 4 on the whole sample; four stale errno values (ENOMEM, ERANGE, EINTR, EAGAIN) on a quarter each
        passes = [('LV_DEBUG_LEVEL=4', {'LV_DEBUG_LEVEL': '4'}, 0, 1)]
        if not getattr(chk, 'env_debug_pass', True):
            passes = []
        passes += [('LV_ERRNO=%d' % e, {'LV_ERRNO': str(e)}, i, 4) for i, e in enumerate([12, 34, 4, 11])]
        cov['env_passes'] = []
        for (tag, env, off, stride) in passes:
            sel = list(range(off, len(sub), stride))
            if stride > 1:
                sel = sorted(set(sel + list(range(0, min(ncorpus, len(sub))))))     # the corpus under every errno
            psub = [sub[j] for j in sel]
            ppath = spath + '.%s' % off
            with open(ppath, 'w') as f:
                for c in psub:
                    f.write(c + '\n')
            eo, ed = run_cases(impl_exe, ppath, len(psub), env=env, timeout_per_run=chk.case_timeout,
                               stderr_file=os.path.join(work, 'stderr-env-%d.txt' % os.getpid()))
            sub_m = [mouts[idx[j]] for j in sel]
            n_sub = len(psub)
            cut = ed.get('truncated_at')
            if cut is not None:
                n_sub = cut
            edis = [d for d in compare(chk, psub[:n_sub], sub_m[:n_sub], eo[:n_sub])
                    if not ('LV_DEBUG_LEVEL' in env and assert_by_design(d['impl']))]
            for d in edis:
                d['case_env'] = env
                d['msg'] = '[%s] %s' % (tag, d['msg'])
            dis += edis
            cov['env_passes'].append(dict(env=tag, cases=n_sub, disagreements=len(edis)))
            try:
                os.remove(ppath)
            except OSError:
                pass
        for f in (spath, os.path.join(work, 'stderr-env-%d.txt' % os.getpid())):
            try:
                os.remove(f)
            except OSError:
                pass
    extra = chk.extra_steps(ctx)
    for (lvl, case, msg) in extra:
        dis.append(dict(level=lvl, k=-1, case=case, model=None, impl=None, msg=msg))

    # ---- 5: classify -------------------------------------------------------------------
    known = [f for f in load_known() if f.get('property') == chk.id and f.get('kind', 'finding') == 'finding']
    a_dis, b_dis = [], []
    for d in dis:
        hit = None
        for f in known:
            if chk.known_match(f, d['case'], d['model'], d['impl']):
                hit = f
                break
        if hit:
            msg = hit.get('what', 'listed finding')
            if msg not in known_hits:
                known_hits.append(msg)
            continue
        (a_dis if d['level'] == 'A' else b_dis).append(d)
    cov['disagreements_A'] = len(a_dis)
    cov['disagreements_B'] = len(b_dis)

    if a_dis:
        # concrete failing inputs: report the shortest few
        a_dis.sort(key=lambda d: len(d['case']))
        d = a_dis[0]
        p = write_replay(chk.id, 'A', dict(kind='failing-input', case=d['case'], model=d['model'], impl=d['impl'],
                                           msg=d['msg'], env=d.get('case_env'), others=[x['case'] for x in a_dis[1:20]],
                                           broken_theorem=proof_broken))
        violations.append((p, ''))
        return finish()

    if b_dis or proof_broken:
        # the tie or a proof is broken: search for a failing input with the larger generator
        found = None
        if model_exe:
            budget = 60 if tier == 'quick' else 600
            ts = time.time()
            rounds = 0
            while time.time() - ts < budget and not found and rounds < 20:
                rounds += 1
                sc = chk.search_gen(tier, random.Random(seed + 7919 * rounds))
                mo, io, det = run_pair(chk, model_exe, impl_exe, sc, 'search')
                for d in compare(chk, sc, mo, io):
                    if d['level'] == 'A' and not any(chk.known_match(f, d['case'], d['model'], d['impl']) for f in known):
                        if found is None or len(d['case']) < len(found['case']):
                            found = d
            cov['search_rounds'] = rounds
        if found:
            p = write_replay(chk.id, 'A', dict(kind='failing-input', case=found['case'], model=found['model'], impl=found['impl'],
                                               msg=found['msg'], broken_theorem=proof_broken,
                                               broken_correspondence=(b_dis[0]['msg'] if b_dis else None)))
            violations.append((p, ''))
        else:
            b_dis.sort(key=lambda d: len(d['case']))
            payload = dict(kind='no-failing-input-found', theorem=proof_broken,
                           correspondence=('%s/level-B: %s' % (chk.id, b_dis[0]['msg'])) if b_dis else None,
                           case=(b_dis[0]['case'] if b_dis else None),
                           model=(b_dis[0]['model'] if b_dis else None), impl=(b_dis[0]['impl'] if b_dis else None),
                           proof_log=pr['log'][-2000:] if proof_broken else None)
            p = write_replay(chk.id, 'B', payload)
            violations.append((p, 'no-failing-input-found'))
    return finish()
